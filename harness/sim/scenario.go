package sim

import (
	"encoding/json"
	"fmt"
	"math"
	"sort"
)

// Scenario is a complete, self-contained description of one simulated run.
type Scenario struct {
	Prop  string               `json:"prop"`
	Seed  uint64               `json:"seed"` // the run seed it was generated from (informational)
	Tier  string               `json:"tier,omitempty"`
	Cfg   map[string]float64   `json:"cfg,omitempty"`
	S     map[string]string    `json:"s,omitempty"`
	Steps []Step               `json:"steps,omitempty"`
	Sched [][2]int             `json:"sched,omitempty"` // (global step index, next task) preemptions
	Data  map[string][]float64 `json:"data,omitempty"`
}

func (sc *Scenario) Clone() *Scenario {
	b, err := json.Marshal(sc)
	if err != nil {
		panic("harness: scenario marshal: " + err.Error())
	}
	var c Scenario
	if err := json.Unmarshal(b, &c); err != nil {
		panic("harness: scenario unmarshal: " + err.Error())
	}
	return &c
}

func (sc *Scenario) CfgInt(k string) int { return int(sc.Cfg[k]) }

// Violation is a failed oracle.
type Violation struct {
	Oracle string `json:"oracle"`
	Msg    string `json:"msg"`
}

func (v *Violation) Class() string { return v.Oracle }

// KnownHit is a deviation the property oracle classified under a signature
// key; the driver decides (from known_findings.json) whether it is a known
// finding or a violation.
type KnownHit struct {
	Key string
	V   Violation
}

// Outcome of executing one scenario.
type Outcome struct {
	Violation  *Violation
	KnownHits  []KnownHit
	Discard    string
	Nontrivial bool
	Sig        uint64
	LogHash    uint64
	SimSteps   uint64
	Faults     map[string]int
	Probes     map[string]int
	// Concrete, when set, is the explicit variant that failed inside an
	// enumerating scenario (fault placement enumerated by Execute); the
	// driver minimises and replays this one.
	Concrete *Scenario
}

func NewOutcome() *Outcome {
	return &Outcome{Faults: map[string]int{}, Probes: map[string]int{}}
}

func (o *Outcome) Fail(oracle, format string, a ...any) *Outcome {
	if o.Violation == nil {
		o.Violation = &Violation{Oracle: oracle, Msg: fmt.Sprintf(format, a...)}
	}
	return o
}

// Property is one claimed property's generator + executor + oracle.
type Property interface {
	ID() string
	Level() string
	Rule() string
	Assumptions() []string
	Extra() map[string]any // static evidence extras (components real/stub, faults not applicable)
	Generate(r *Rand, tier string) *Scenario
	Execute(sc *Scenario) *Outcome
	Shrinks(sc *Scenario) []*Scenario
}

var registry = map[string]Property{}

func Register(p Property) { registry[p.ID()] = p }

func Lookup(id string) Property { return registry[id] }

func PropertyIDs() []string {
	var ids []string
	for k := range registry {
		ids = append(ids, k)
	}
	sort.Strings(ids)
	return ids
}

// HarnessPanic marks a bug in the harness itself (exit 2, never a VIOLATION).
type HarnessPanic struct{ Msg string }

func Bug(format string, a ...any) { panic(HarnessPanic{fmt.Sprintf(format, a...)}) }

// SafeExecute runs a scenario, turning a library panic into a violation.
func SafeExecute(p Property, sc *Scenario) (out *Outcome) {
	defer func() {
		if r := recover(); r != nil {
			if hp, ok := r.(HarnessPanic); ok {
				panic(hp)
			}
			if s, ok := r.(string); ok && len(s) >= 8 && s[:8] == "harness:" {
				panic(HarnessPanic{s})
			}
			out = NewOutcome()
			out.Fail("panic", "library panicked: %v", r)
			UninstallSched()
		}
	}()
	return p.Execute(sc)
}

/* ---- generic shrinking helpers ---- */

// DropStep returns the scenario without step i and without every later step
// that (transitively) uses a result that thereby disappears. ok=false if
// nothing would be removed.
func DropStep(sc *Scenario, i int) *Scenario {
	c := sc.Clone()
	gone := map[int]bool{}
	if sc.Steps[i].Out >= 0 && producesNew(sc.Steps[i]) {
		gone[sc.Steps[i].Out] = true
	}
	var keep []Step
	for j, s := range c.Steps {
		if j == i {
			continue
		}
		if j > i {
			dep := false
			for _, id := range s.In {
				if gone[id] {
					dep = true
				}
			}
			if dep {
				if s.Out >= 0 && producesNew(s) {
					gone[s.Out] = true
				}
				continue
			}
		}
		keep = append(keep, s)
	}
	c.Steps = keep
	return c
}

func producesNew(s Step) bool {
	return IsCreator(s.Op) || IsTensorOp(s.Op) || s.Op == "grad"
}

// StepShrinks proposes: drop each client, drop each step (last first),
// simplify float arguments.
func StepShrinks(sc *Scenario) []*Scenario {
	var out []*Scenario
	clients := map[int]bool{}
	for _, s := range sc.Steps {
		clients[s.C] = true
	}
	var cs []int
	for c := range clients {
		cs = append(cs, c)
	}
	sort.Ints(cs)
	if len(cs) > 1 {
		for _, c := range cs {
			cand := sc
			// drop steps of c from the back so closures compose
			for i := len(cand.Steps) - 1; i >= 0; i-- {
				if i < len(cand.Steps) && cand.Steps[i].C == c {
					cand = DropStep(cand, i)
				}
			}
			if len(cand.Steps) < len(sc.Steps) {
				out = append(out, cand)
			}
		}
	}
	// halves
	if n := len(sc.Steps); n > 8 {
		cand := sc
		for i := n - 1; i >= n/2; i-- {
			if i < len(cand.Steps) {
				cand = DropStep(cand, i)
			}
		}
		out = append(out, cand)
	}
	for i := len(sc.Steps) - 1; i >= 0; i-- {
		out = append(out, DropStep(sc, i))
	}
	// simplify values
	for i := range sc.Steps {
		s := sc.Steps[i]
		if len(s.F) == 0 || s.Op == "randu" || s.Op == "randn" {
			continue
		}
		changed := false
		c := sc.Clone()
		for k, v := range c.Steps[i].F {
			r := math.Round(v)
			if r == 0 {
				r = 1
			}
			if r != v {
				c.Steps[i].F[k] = r
				changed = true
			}
		}
		if changed {
			out = append(out, c)
		}
	}
	return out
}

// SafeGenerate runs a generator. Generators execute the real library while
// they build a scenario; if the library panics there (or hands out a tensor
// whose Shape() and At() disagree) that is a violation found during
// generation, reported with an empty scenario: the replay regenerates run idx.
// Panics raised by the harness itself (HarnessPanic / "harness:" prefix) are
// bugs and propagate.
func SafeGenerate(p Property, r *Rand, tier string) (sc *Scenario, v *Violation) {
	defer func() {
		if rec := recover(); rec != nil {
			if hp, ok := rec.(HarnessPanic); ok {
				panic(hp)
			}
			if s, ok := rec.(string); ok && len(s) >= 8 && s[:8] == "harness:" {
				panic(HarnessPanic{s})
			}
			UninstallSched()
			for pausedDepth > 0 {
				Resume()
			}
			sc = &Scenario{Cfg: map[string]float64{"generation_failed": 1}}
			v = &Violation{Oracle: "panic-during-generation", Msg: fmt.Sprintf("the library panicked / misbehaved while the generator was executing it to build the scenario: %v", rec)}
		}
	}()
	return p.Generate(r, tier), nil
}
