// Package sim is the deterministic simulator used by every check: one PRNG
// decides everything, scenarios are explicit and replayable, time is the
// number of yield points passed.
package sim

import "math"

// SplitMix64 step; also used to derive per-run seeds.
func SplitMix64(x uint64) uint64 {
	x += 0x9e3779b97f4a7c15
	z := x
	z = (z ^ (z >> 30)) * 0xbf58476d1ce4e5b9
	z = (z ^ (z >> 27)) * 0x94d049bb133111eb
	return z ^ (z >> 31)
}

// RunSeed derives the seed of run i of a batch for a property.
func RunSeed(base uint64, prop string, i int) uint64 {
	h := SplitMix64(base ^ 0x71656570) // "qeep"
	for _, c := range []byte(prop) {
		h = SplitMix64(h ^ uint64(c))
	}
	return SplitMix64(h ^ uint64(i)*0x9e3779b97f4a7c15)
}

// Rand is xoshiro256**; the only choice source in the harness.
type Rand struct{ s [4]uint64 }

func NewRand(seed uint64) *Rand {
	r := &Rand{}
	x := seed
	for i := range r.s {
		x = SplitMix64(x)
		r.s[i] = x
	}
	return r
}

func rotl(x uint64, k uint) uint64 { return (x << k) | (x >> (64 - k)) }

func (r *Rand) Uint64() uint64 {
	s := &r.s
	res := rotl(s[1]*5, 7) * 9
	t := s[1] << 17
	s[2] ^= s[0]
	s[3] ^= s[1]
	s[1] ^= s[2]
	s[0] ^= s[3]
	s[2] ^= t
	s[3] = rotl(s[3], 45)
	return res
}

// Intn returns a value in [0,n). n<=0 returns 0.
func (r *Rand) Intn(n int) int {
	if n <= 1 {
		return 0
	}
	return int(r.Uint64() % uint64(n))
}

// Range returns a value in [lo,hi].
func (r *Rand) Range(lo, hi int) int {
	if hi <= lo {
		return lo
	}
	return lo + r.Intn(hi-lo+1)
}

func (r *Rand) Float64() float64 { return float64(r.Uint64()>>11) / (1 << 53) }

func (r *Rand) Bool(p float64) bool { return r.Float64() < p }

// Uniform in [lo,hi).
func (r *Rand) Uniform(lo, hi float64) float64 { return lo + (hi-lo)*r.Float64() }

// LogUniform in [lo,hi), lo>0.
func (r *Rand) LogUniform(lo, hi float64) float64 {
	return math.Exp(r.Uniform(math.Log(lo), math.Log(hi)))
}

// Value draws an element value: mostly uniform in [-2,2], sometimes a special.
func (r *Rand) Value(specials bool) float64 {
	if specials && r.Bool(0.1) {
		sp := []float64{0, 1, -1, 0.5, -0.5}
		return sp[r.Intn(len(sp))]
	}
	// keep a short mantissa now and then so products stay exact-ish and readable
	v := r.Uniform(-2, 2)
	if r.Bool(0.5) {
		v = math.Round(v*64) / 64
	}
	return v
}

// Perm returns a permutation of 0..n-1.
func (r *Rand) Perm(n int) []int {
	p := make([]int, n)
	for i := range p {
		p[i] = i
	}
	for i := n - 1; i > 0; i-- {
		j := r.Intn(i + 1)
		p[i], p[j] = p[j], p[i]
	}
	return p
}

// Hash64 is FNV-1a folded through SplitMix; used for signatures and log hashes.
type Hash64 uint64

func NewHash() Hash64 { return 0xcbf29ce484222325 }

func (h Hash64) Byte(b byte) Hash64 { return (h ^ Hash64(b)) * 0x100000001b3 }

func (h Hash64) U64(x uint64) Hash64 {
	for i := 0; i < 8; i++ {
		h = h.Byte(byte(x >> (8 * i)))
	}
	return h
}

func (h Hash64) Int(x int) Hash64 { return h.U64(uint64(int64(x))) }

func (h Hash64) F64(x float64) Hash64 { return h.U64(math.Float64bits(x)) }

func (h Hash64) Str(s string) Hash64 {
	for i := 0; i < len(s); i++ {
		h = h.Byte(s[i])
	}
	return h.Byte(0xff)
}

func (h Hash64) Sum() uint64 { return SplitMix64(uint64(h)) }
