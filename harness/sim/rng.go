package sim

import exprand "golang.org/x/exp/rand"

// SeedLibraryRNG pins the library's only source of nondeterminism: gonum's
// distuv with a nil Src draws from the process-global golang.org/x/exp/rand
// source, which this seeds.
func SeedLibraryRNG(seed uint64) { exprand.Seed(seed) }
