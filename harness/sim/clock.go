package sim

import (
	"bufio"
	"fmt"
	"os"
	"strconv"
	"strings"

	"github.com/sahandsafizadeh/qeep/zzsimhook"
)

// The simulated clock: number of yield points passed. One clock per process
// (every run executes in a worker process of its own or sequentially).

// BudgetExceeded is the panic value raised by the hook when a call runs past
// its step budget (bounded liveness in simulated time).
type BudgetExceeded struct {
	Budget uint64
	Site   int
}

func (b BudgetExceeded) Error() string {
	return fmt.Sprintf("call did not finish within %d simulated steps (at site %d)", b.Budget, b.Site)
}

var (
	steps    uint64
	deadline uint64 // 0 = none
	// optional per-class counters (set by LoadSites)
	siteClass  []uint8
	classCount [5]uint64
	// extra is an additional hook run after counting (the C20 scheduler)
	extra func(site int)
)

const (
	ClassOther    = iota
	ClassGradRule // function literal lexically inside package gradtrack
	ClassGen      // element generators / fill loops (in-flight state)
	ClassRNG
	ClassBackprop // graph traversal machinery of back-propagation (package gradtrack, not a rule literal)
)

// Pause / Resume bracket oracle code (fingerprints, reads) so that it does
// not consume simulated time and can never be preempted.
func Pause() {
	if zzsimhook.Instrumented {
		pausedDepth++
	}
}
func Resume() {
	if zzsimhook.Instrumented {
		pausedDepth--
	}
}

var pausedDepth int

// Owner check: while an owner goroutine is set, every 2048th yield verifies
// that it arrives on that goroutine. A yield from any other goroutine means
// the library runs goroutines of its own; the simulator then does not control
// the schedule (C20 stage A is reported as not run for that scenario).
var (
	ownerGID    uint64
	ownerSample uint32
	foreignSeen bool
)

func SetOwner(gid uint64) { ownerGID = gid }
func CurrentGID() uint64  { return curGID() }
func ForeignSeen() bool   { return foreignSeen }
func ClearForeign()       { foreignSeen = false }

func hook(site int) {
	if ownerGID != 0 {
		ownerSample++
		if ownerSample&2047 == 0 && curGID() != ownerGID {
			foreignSeen = true
			return
		}
	}
	if pausedDepth > 0 {
		return
	}
	steps++
	if siteClass != nil && site < len(siteClass) {
		classCount[siteClass[site]]++
	}
	if deadline != 0 && steps > deadline {
		d := deadline
		deadline = 0
		panic(BudgetExceeded{Budget: d, Site: site})
	}
	if extra != nil {
		extra(site)
	}
}

// Instrumented reports whether the build under test carries yield points.
func Instrumented() bool { return zzsimhook.Instrumented }

// InstallClock installs the counting hook (idempotent).
func InstallClock() {
	zzsimhook.Hook = hook
}

// UninstallClock removes the hook completely.
func UninstallClock() { zzsimhook.Hook = nil }

func Now() uint64 { return steps }

func ClassCount(c int) uint64 { return classCount[c] }

// SetExtraHook installs a function called at every yield after counting.
func SetExtraHook(f func(site int)) { extra = f }

// WithBudget runs f with a step budget; it returns the steps consumed and a
// non-nil *BudgetExceeded if the budget ran out. Other panics propagate.
func WithBudget(budget uint64, f func()) (used uint64, ex *BudgetExceeded) {
	start := steps
	old := deadline
	if budget > 0 {
		deadline = steps + budget
	}
	defer func() {
		deadline = old
		used = steps - start
		if r := recover(); r != nil {
			if b, ok := r.(BudgetExceeded); ok {
				b.Budget = budget
				ex = &b
				return
			}
			panic(r)
		}
	}()
	f()
	return
}

// SiteInfo is one line of sites.tsv.
type SiteInfo struct {
	ID   int
	Kind string
	Pos  string
	Fn   string
}

var Sites []SiteInfo

// LoadSites reads the instrumenter's site table (path from QV_SITES) and
// classifies sites. Missing table: probes report "unavailable".
func LoadSites() bool {
	p := os.Getenv("QV_SITES")
	if p == "" {
		return false
	}
	f, err := os.Open(p)
	if err != nil {
		return false
	}
	defer f.Close()
	sc := bufio.NewScanner(f)
	for sc.Scan() {
		parts := strings.Split(sc.Text(), "\t")
		if len(parts) != 4 {
			continue
		}
		id, err := strconv.Atoi(parts[0])
		if err != nil {
			continue
		}
		Sites = append(Sites, SiteInfo{id, parts[1], parts[2], parts[3]})
	}
	siteClass = make([]uint8, len(Sites))
	for _, s := range Sites {
		if s.ID >= len(siteClass) {
			continue
		}
		switch {
		case strings.Contains(s.Pos, "/gradtrack/") && s.Kind == "lit":
			siteClass[s.ID] = ClassGradRule
		case strings.Contains(s.Pos, "/gradtrack/back_propagation") || (strings.Contains(s.Pos, "/gradtrack/") && (s.Kind == "for" || s.Kind == "range")):
			siteClass[s.ID] = ClassBackprop
		case strings.Contains(s.Fn, "Rand") || strings.Contains(s.Pos, "/initializers/") || strings.Contains(s.Pos, "cputensor/initializers.go") && (strings.Contains(s.Fn, "Source") || strings.Contains(s.Fn, "Seed") || strings.Contains(s.Fn, "Sampl") || strings.Contains(s.Fn, "Deviate") || strings.Contains(s.Fn, "Uniform") || strings.Contains(s.Fn, "Normal") || strings.Contains(s.Fn, "uniform") || strings.Contains(s.Fn, "normal")):
			siteClass[s.ID] = ClassRNG
		case strings.Contains(s.Fn, "ElemGenerator") || strings.Contains(s.Fn, "initWith") ||
			strings.Contains(s.Fn, "calcData") || strings.Contains(s.Fn, "copyData") || strings.Contains(s.Fn, "fill"):
			siteClass[s.ID] = ClassGen
		}
	}
	return len(Sites) > 0
}

// HaveGradRuleSites reports whether the rule-application probe is available.
func HaveGradRuleSites() bool {
	for _, c := range siteClass {
		if c == ClassGradRule {
			return true
		}
	}
	return false
}

func SiteClass(site int) int {
	if site >= 0 && site < len(siteClass) {
		return int(siteClass[site])
	}
	return ClassOther
}
