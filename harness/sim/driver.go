package sim

import (
	"bufio"
	"encoding/json"
	"fmt"
	"os"
	"os/exec"
	"path/filepath"
	"regexp"
	"runtime"
	"sort"
	"strconv"
	"strings"
	"time"
)

/* ---------- known findings ---------- */

type Finding struct {
	Status   string `json:"status"` // "open" | "fixed"
	Property string `json:"property"`
	Key      string `json:"key,omitempty"` // signature key for open findings
	Commit   string `json:"commit,omitempty"`
	What     string `json:"what"`
}

type FindingsFile struct {
	Findings []Finding `json:"findings"`
}

func LoadFindings(path string) map[string]Finding {
	open := map[string]Finding{}
	if path == "" {
		return open
	}
	b, err := os.ReadFile(path)
	if err != nil {
		return open
	}
	var ff FindingsFile
	if err := json.Unmarshal(b, &ff); err != nil {
		fmt.Fprintln(os.Stderr, "runner: cannot parse known findings:", err)
		os.Exit(2)
	}
	for _, f := range ff.Findings {
		if f.Status == "open" && f.Key != "" {
			open[f.Property+"/"+f.Key] = f
		}
	}
	return open
}

// Resolve turns known-hit candidates into either counted known findings or a
// violation, according to the committed file.
func Resolve(prop string, out *Outcome, open map[string]Finding) (known []string) {
	for _, h := range out.KnownHits {
		if _, ok := open[prop+"/"+h.Key]; ok {
			known = append(known, h.Key)
		} else if out.Violation == nil {
			v := h.V
			out.Violation = &v
		}
	}
	return
}

/* ---------- worker protocol ---------- */

type FoundViolation struct {
	From     int       `json:"from"`
	Stride   int       `json:"stride"`
	Idx      int       `json:"idx"`
	Scenario *Scenario `json:"scenario"`
	V        Violation `json:"v"`
}

type WorkerReport struct {
	Runs       int               `json:"runs"`
	Discards   map[string]int    `json:"discards"`
	Sigs       []uint64          `json:"sigs"` // signatures of non-trivial runs (distinct within worker)
	Nontrivial int               `json:"nontrivial"`
	Faults     map[string]int    `json:"faults"`
	Probes     map[string]int    `json:"probes"`
	SimSteps   uint64            `json:"sim_steps"`
	Samples    []*Scenario       `json:"samples"`
	Known      map[string]int    `json:"known"`
	Violation  *FoundViolation   `json:"violation,omitempty"`
	LogXor     uint64            `json:"log_xor"`
	Hashes     map[string]uint64 `json:"hashes,omitempty"`
	Bug        string            `json:"bug,omitempty"`
}

type Opts struct {
	Prop     string
	Tier     string
	Seed     uint64
	Workers  int
	Budget   time.Duration
	MaxRuns  int
	Evidence string
	Replays  string
	Known    string
	Self     string // path of this binary
	Level    string
}

func addMap(dst, src map[string]int) {
	for k, v := range src {
		if strings.HasPrefix(k, "max-") {
			if v > dst[k] {
				dst[k] = v
			}
			continue
		}
		dst[k] += v
	}
}

// Worker runs indices from, from+stride, ... and prints one WorkerReport.
func Worker(o Opts, from, stride int, dumpHashes bool) {
	p := Lookup(o.Prop)
	if p == nil {
		fmt.Fprintln(os.Stderr, "runner: unknown property", o.Prop)
		os.Exit(2)
	}
	open := LoadFindings(o.Known)
	LoadSites()
	InstallClock()
	rep := WorkerReport{Discards: map[string]int{}, Faults: map[string]int{}, Probes: map[string]int{}, Known: map[string]int{}}
	if dumpHashes {
		rep.Hashes = map[string]uint64{}
	}
	seen := map[uint64]bool{}
	deadline := time.Now().Add(o.Budget)
	func() {
		defer func() {
			if r := recover(); r != nil {
				if hp, ok := r.(HarnessPanic); ok {
					rep.Bug = hp.Msg
					return
				}
				buf := make([]byte, 4096)
				n := runtime.Stack(buf, false)
				rep.Bug = fmt.Sprintf("unexpected panic in harness: %v\n%s", r, buf[:n])
			}
		}()
		for idx := from; o.MaxRuns <= 0 || idx < o.MaxRuns; idx += stride {
			if time.Now().After(deadline) {
				break
			}
			seed := RunSeed(o.Seed, o.Prop, idx)
			sc, gv := SafeGenerate(p, NewRand(seed), o.Tier)
			sc.Prop, sc.Seed, sc.Tier = o.Prop, seed, o.Tier
			if gv != nil {
				rep.Runs++
				rep.Violation = &FoundViolation{From: idx, Stride: 1, Idx: idx, Scenario: sc, V: *gv}
				break
			}
			t0 := time.Now()
			out := SafeExecute(p, sc)
			if d := time.Since(t0); d > 30*time.Second {
				// diagnostics only (stderr, never part of a verdict): one run that
				// eats a large part of the batch budget points at a workload bound
				fmt.Fprintf(os.Stderr, "qsim: slow run: property %s run %d took %.0fs (%d steps in the scenario)\n", o.Prop, idx, d.Seconds(), len(sc.Steps))
			}
			rep.Runs++
			rep.SimSteps += out.SimSteps
			rep.LogXor ^= SplitMix64(out.LogHash ^ uint64(idx))
			if dumpHashes {
				rep.Hashes[strconv.Itoa(idx)] = out.LogHash
			}
			if out.Discard != "" {
				rep.Discards[out.Discard]++
				continue
			}
			for _, k := range Resolve(o.Prop, out, open) {
				rep.Known[k]++
			}
			addMap(rep.Faults, out.Faults)
			addMap(rep.Probes, out.Probes)
			if out.Nontrivial {
				rep.Nontrivial++
				if !seen[out.Sig] {
					seen[out.Sig] = true
					rep.Sigs = append(rep.Sigs, out.Sig)
				}
				if len(rep.Samples) < 2 {
					rep.Samples = append(rep.Samples, sc)
				}
			}
			if out.Violation != nil {
				fsc := sc
				if out.Concrete != nil {
					fsc = out.Concrete
					fsc.Prop, fsc.Seed, fsc.Tier = o.Prop, seed, o.Tier
				}
				rep.Violation = &FoundViolation{From: from, Stride: stride, Idx: idx, Scenario: fsc, V: *out.Violation}
				break
			}
		}
	}()
	enc := json.NewEncoder(os.Stdout)
	if err := enc.Encode(&rep); err != nil {
		fmt.Fprintln(os.Stderr, "runner: encode:", err)
		os.Exit(2)
	}
}

/* ---------- replay files ---------- */

// History, when present, makes the replay re-execute the finding worker's
// whole deterministic run sequence (indices From, From+Stride, ..., Upto) in
// one fresh process: used when a violation depends on state the library keeps
// between runs (package-level variables), so that no single scenario
// reproduces it.
type History struct {
	From   int `json:"from"`
	Stride int `json:"stride"`
	Upto   int `json:"upto"`
}

type ReplayFile struct {
	History   *History  `json:"history,omitempty"`
	Property  string    `json:"property"`
	Seed      uint64    `json:"seed"`
	RunIndex  int       `json:"run_index"`
	Tier      string    `json:"tier"`
	Oracle    string    `json:"oracle"`
	Message   string    `json:"message"`
	Minimised bool      `json:"minimised"`
	OrigSteps int       `json:"orig_steps"`
	LogHash   uint64    `json:"log_hash"`
	Scenario  *Scenario `json:"scenario"`
}

// Replay executes a replay file in this process; exit code semantics as checks.
func Replay(path, knownPath string) int {
	b, err := os.ReadFile(path)
	if err != nil {
		fmt.Fprintln(os.Stderr, "runner: replay:", err)
		return 2
	}
	var rf ReplayFile
	if err := json.Unmarshal(b, &rf); err != nil {
		fmt.Fprintln(os.Stderr, "runner: replay parse:", err)
		return 2
	}
	p := Lookup(rf.Property)
	if p == nil {
		fmt.Fprintln(os.Stderr, "runner: unknown property", rf.Property)
		return 2
	}
	LoadSites()
	InstallClock()
	open := LoadFindings(knownPath)
	var out *Outcome
	if h := rf.History; h != nil && h.Stride > 0 {
		for idx := h.From; idx <= h.Upto; idx += h.Stride {
			seed := RunSeed(rf.Seed, rf.Property, idx)
			sc, gv := SafeGenerate(p, NewRand(seed), rf.Tier)
			sc.Prop, sc.Seed, sc.Tier = rf.Property, seed, rf.Tier
			if gv != nil {
				out = NewOutcome()
				out.Violation = gv
				break
			}
			out = SafeExecute(p, sc)
			Resolve(rf.Property, out, open)
			if out.Violation != nil && idx != h.Upto {
				fmt.Printf("REPLAY note: run %d of the history already fails (%s)\n", idx, out.Violation.Oracle)
				break
			}
		}
	} else {
		out = SafeExecute(p, rf.Scenario)
		Resolve(rf.Property, out, open)
	}
	if out.Discard != "" {
		fmt.Printf("REPLAY property=%s discarded: %s\n", rf.Property, out.Discard)
		return 3
	}
	if out.Violation == nil {
		fmt.Printf("REPLAY property=%s held (no violation) log_hash=%d\n", rf.Property, out.LogHash)
		return 0
	}
	fmt.Printf("REPLAY property=%s oracle=%s log_hash=%d\n  %s\n", rf.Property, out.Violation.Oracle, out.LogHash, out.Violation.Msg)
	fmt.Printf("VIOLATION property=%s replay=%s\n", rf.Property, path)
	return 1
}

/* ---------- minimisation ---------- */

func stepsOf(sc *Scenario) int { return len(sc.Steps) + len(sc.Sched) }

// Minimise shrinks a failing scenario while the same violation class persists.
func Minimise(p Property, sc *Scenario, class string, open map[string]Finding, maxCand int, maxTime time.Duration) (*Scenario, *Outcome, int) {
	cur := sc
	curOut := SafeExecute(p, cur)
	Resolve(p.ID(), curOut, open)
	tried := 0
	start := time.Now()
	for progress := true; progress; {
		progress = false
		for _, cand := range p.Shrinks(cur) {
			if tried >= maxCand || time.Since(start) > maxTime {
				return cur, curOut, tried
			}
			tried++
			out := SafeExecute(p, cand)
			Resolve(p.ID(), out, open)
			if out.Discard == "" && out.Violation != nil && out.Violation.Oracle == class {
				cur, curOut = cand, out
				progress = true
				break
			}
		}
	}
	return cur, curOut, tried
}

/* ---------- batch ---------- */

type evidence struct {
	PropertyID  string         `json:"property_id"`
	Tier        string         `json:"tier"`
	Seed        int64          `json:"seed"`
	Level       string         `json:"level"`
	Coverage    map[string]any `json:"coverage"`
	Assumptions []string       `json:"assumptions"`
	WallS       float64        `json:"wall_s"`
	Violations  int            `json:"violations"`
}

// Batch is the parent: spawn workers, aggregate, minimise, report.
func Batch(o Opts) int {
	start := time.Now()
	p := Lookup(o.Prop)
	if p == nil {
		fmt.Fprintln(os.Stderr, "runner: unknown property", o.Prop)
		return 2
	}
	fmt.Printf("qsim: property=%s tier=%s VERIF_SEED=%d workers=%d budget=%s max_runs=%d\n", o.Prop, o.Tier, o.Seed, o.Workers, o.Budget, o.MaxRuns)
	type res struct {
		rep WorkerReport
		err error
		raw string
	}
	ch := make(chan res, o.Workers)
	for w := 0; w < o.Workers; w++ {
		go func(w int) {
			cmd := exec.Command(o.Self, "-worker", "-prop", o.Prop, "-tier", o.Tier,
				"-seed", strconv.FormatUint(o.Seed, 10), "-from", strconv.Itoa(w), "-stride", strconv.Itoa(o.Workers),
				"-budget", o.Budget.String(), "-maxruns", strconv.Itoa(o.MaxRuns), "-known", o.Known)
			cmd.Env = append(os.Environ(), "GOMAXPROCS=2")
			cmd.Stderr = os.Stderr
			outb, err := cmd.Output()
			var r res
			r.err = err
			r.raw = string(outb)
			if err == nil {
				// last line is the report
				lines := strings.Split(strings.TrimSpace(string(outb)), "\n")
				err = json.Unmarshal([]byte(lines[len(lines)-1]), &r.rep)
				r.err = err
			}
			ch <- r
		}(w)
	}
	total := WorkerReport{Discards: map[string]int{}, Faults: map[string]int{}, Probes: map[string]int{}, Known: map[string]int{}}
	sigs := map[uint64]bool{}
	var viol *FoundViolation
	for w := 0; w < o.Workers; w++ {
		r := <-ch
		if r.err != nil {
			fmt.Fprintf(os.Stderr, "runner: worker failed: %v\n%s\n", r.err, r.raw)
			return 2
		}
		if r.rep.Bug != "" {
			fmt.Fprintf(os.Stderr, "runner: HARNESS BUG (exit 2, not a violation): %s\n", r.rep.Bug)
			return 2
		}
		total.Runs += r.rep.Runs
		total.Nontrivial += r.rep.Nontrivial
		total.SimSteps += r.rep.SimSteps
		total.LogXor ^= r.rep.LogXor
		addMap(total.Discards, r.rep.Discards)
		addMap(total.Faults, r.rep.Faults)
		addMap(total.Probes, r.rep.Probes)
		addMap(total.Known, r.rep.Known)
		for _, s := range r.rep.Sigs {
			sigs[s] = true
		}
		if len(total.Samples) < 3 {
			total.Samples = append(total.Samples, r.rep.Samples...)
		}
		if r.rep.Violation != nil && (viol == nil || r.rep.Violation.Idx < viol.Idx) {
			viol = r.rep.Violation
		}
	}
	if len(total.Samples) > 3 {
		total.Samples = total.Samples[:3]
	}
	// samples are there to show what a case looks like: keep them readable
	var sampleView []any
	for _, sc := range total.Samples {
		c := sc.Clone()
		note := ""
		if len(c.Steps) > 40 {
			note = fmt.Sprintf("%d steps in total, first 40 shown", len(c.Steps))
			c.Steps = c.Steps[:40]
		}
		if len(c.Sched) > 40 {
			note += fmt.Sprintf("; %d preemptions in total, first 40 shown", len(c.Sched))
			c.Sched = c.Sched[:40]
		}
		for k, v := range c.Data {
			if len(v) > 64 {
				c.Data[k] = v[:64]
				note += fmt.Sprintf("; data %q truncated to 64 of %d values", k, len(v))
			}
		}
		sampleView = append(sampleView, map[string]any{"scenario": c, "note": note})
	}
	open := LoadFindings(o.Known)
	code := 0
	nviol := 0
	var replayPath string
	stageB := map[string]any{"run": false}
	if rr := os.Getenv("QV_RACE_RUNNER"); rr != "" && viol == nil {
		bb := o.Budget / 2
		if bb > 4*time.Minute {
			bb = 4 * time.Minute
		}
		fmt.Printf("qsim: stage B (uninstrumented -race build, real parallelism, GOMAXPROCS 16 and 4) for %s\n", bb)
		rb := StageB(o, rr, 6, bb)
		if rb.Err != nil {
			fmt.Fprintln(os.Stderr, "runner:", rb.Err)
			return 2
		}
		stageB = map[string]any{"run": true, "scenarios": rb.Runs, "repetitions_per_scenario": 3, "gomaxprocs": []int{16, 4},
			"races_reported": 0, "note": "runtime monitoring under the Go race detector: interleavings chosen by the Go scheduler, not by the simulator"}
		fmt.Printf("qsim: stage B ran %d scenarios x 3 repetitions, ", rb.Runs)
		if rb.Violation != nil {
			stageB["races_reported"] = 1
			path, err := WriteStageBReplay(o, p, rb.Violation)
			if err != nil {
				fmt.Fprintln(os.Stderr, "runner: write replay:", err)
				return 2
			}
			fmt.Printf("violation in scenario %d: %s\n", rb.Violation.Idx, rb.Violation.V.Msg)
			replayPath = path
			code, nviol = 1, 1
		} else {
			fmt.Printf("no race, no divergence from the sequential results\n")
		}
	}
	if viol != nil {
		nviol = 1
		LoadSites()
		InstallClock()
		fmt.Printf("qsim: run %d failed oracle %s: %s\n", viol.Idx, viol.V.Oracle, viol.V.Msg)
		if viol.V.Oracle == "panic-during-generation" {
			rf := ReplayFile{History: &History{From: viol.Idx, Stride: 1, Upto: viol.Idx}, Property: o.Prop, Seed: o.Seed, RunIndex: viol.Idx,
				Tier: o.Tier, Oracle: viol.V.Oracle, Message: viol.V.Msg, Scenario: viol.Scenario}
			os.MkdirAll(o.Replays, 0o755)
			replayPath = filepath.Join(o.Replays, fmt.Sprintf("%s-%d-%d.json", o.Prop, o.Seed, viol.Idx))
			b, _ := json.MarshalIndent(&rf, "", " ")
			if err := os.WriteFile(replayPath, b, 0o644); err != nil {
				fmt.Fprintln(os.Stderr, "runner: write replay:", err)
				return 2
			}
			cmd := exec.Command(o.Self, "-replay", replayPath, "-known", o.Known)
			cmd.Env = os.Environ()
			outb, _ := cmd.CombinedOutput()
			if !strings.Contains(string(outb), "VIOLATION property=") {
				fmt.Fprintf(os.Stderr, "runner: the generation failure of run %d does not reproduce in a fresh process: determinism trouble\n%s\n", viol.Idx, outb)
				return 2
			}
			fmt.Printf("qsim: replay (regenerating run %d) confirmed in a fresh process\n", viol.Idx)
			fmt.Printf("VIOLATION property=%s replay=%s\n", o.Prop, replayPath)
			return 1
		}
		min, mout, tried := Minimise(p, viol.Scenario, viol.V.Oracle, open, 400, 60*time.Second)
		msg, lh := viol.V.Msg, uint64(0)
		if mout != nil && mout.Violation != nil {
			msg, lh = mout.Violation.Msg, mout.LogHash
			fmt.Printf("qsim: minimised %d -> %d steps (%d candidates)\n", stepsOf(viol.Scenario), stepsOf(min), tried)
		} else {
			// not reproducible from the scenario alone in this process: the run
			// depended on state the library keeps between runs of one worker; the
			// fresh-process confirmation below falls back to the worker's history
			fmt.Printf("qsim: the failing scenario does not fail on its own in the parent process (state kept between runs?); no minimisation\n")
			min = viol.Scenario
		}
		rf := ReplayFile{Property: o.Prop, Seed: o.Seed, RunIndex: viol.Idx, Tier: o.Tier, Oracle: viol.V.Oracle, Message: msg,
			Minimised: true, OrigSteps: stepsOf(viol.Scenario), LogHash: lh, Scenario: min}
		os.MkdirAll(o.Replays, 0o755)
		replayPath = filepath.Join(o.Replays, fmt.Sprintf("%s-%d-%d.json", o.Prop, o.Seed, viol.Idx))
		b, _ := json.MarshalIndent(&rf, "", " ")
		if err := os.WriteFile(replayPath, b, 0o644); err != nil {
			fmt.Fprintln(os.Stderr, "runner: write replay:", err)
			return 2
		}
		// confirm in a fresh process: (1) the minimised scenario, (2) the scenario
		// as found, (3) the finding worker's whole run history. A replay that
		// shows a violation of the property under another oracle name is still a
		// reproduction (state kept by the library between runs can change which
		// oracle fires first); the file then records what the fresh process saw.
		oracleRe := regexp.MustCompile(`REPLAY property=\S+ oracle=(\S+) `)
		confirm := func() (string, bool) {
			// a deterministic failure reproduces at the first attempt; the further
			// attempts only matter when the library itself starts goroutines the
			// simulator does not schedule and the failure depends on their timing
			var outb []byte
			for attempt := 0; attempt < 4; attempt++ {
				cmd := exec.Command(o.Self, "-replay", replayPath, "-known", o.Known)
				cmd.Env = os.Environ()
				outb, _ = cmd.CombinedOutput()
				if m := oracleRe.FindStringSubmatch(string(outb)); m != nil && strings.Contains(string(outb), "VIOLATION property=") {
					if attempt > 0 {
						fmt.Printf("qsim: the replay failed only at attempt %d: the failure depends on something the simulator does not control\n", attempt+1)
					}
					return m[1], true
				}
			}
			return string(outb), false
		}
		write := func() bool {
			b, _ := json.MarshalIndent(&rf, "", " ")
			if err := os.WriteFile(replayPath, b, 0o644); err != nil {
				fmt.Fprintln(os.Stderr, "runner: write replay:", err)
				return false
			}
			return true
		}
		got, ok := confirm()
		if !ok {
			rf.Scenario, rf.Minimised, rf.Message = viol.Scenario, false, viol.V.Msg
			msg = viol.V.Msg
			if !write() {
				return 2
			}
			fmt.Printf("qsim: the minimised scenario did not reproduce in a fresh process; trying the scenario as found\n")
			got, ok = confirm()
		}
		if !ok && viol.Stride > 0 {
			rf.History = &History{From: viol.From, Stride: viol.Stride, Upto: viol.Idx}
			if !write() {
				return 2
			}
			fmt.Printf("qsim: not reproducible from one scenario (the library keeps state between runs); the replay file re-executes the worker's run history %d,%d,...,%d\n", viol.From, viol.From+viol.Stride, viol.Idx)
			got, ok = confirm()
		}
		if !ok {
			fmt.Fprintf(os.Stderr, "runner: no replay in a fresh process reproduces a violation (minimised, as found, whole history): determinism trouble\n%s\n", got)
			return 2
		}
		if got != viol.V.Oracle {
			rf.Oracle = got
			rf.Message = "fresh process reports oracle " + got + "; worker reported " + viol.V.Oracle + ": " + rf.Message
			if !write() {
				return 2
			}
		}
		fmt.Printf("qsim: replay confirmed in a fresh process\n  %s\n", msg)
		code = 1
	}
	// known findings: one line per key
	var keys []string
	for k := range total.Known {
		keys = append(keys, k)
	}
	sort.Strings(keys)
	for _, k := range keys {
		f := open[o.Prop+"/"+k]
		fmt.Printf("KNOWN-FINDING: property=%s %s [%s; seen in %d runs]\n", o.Prop, f.What, k, total.Known[k])
	}
	wall := time.Since(start).Seconds()
	cov := map[string]any{
		"evaluations":         total.Runs,
		"distinct_nontrivial": len(sigs),
		"nontrivial_runs":     total.Nontrivial,
		"rule":                p.Rule(),
		"samples":             sampleView,
		"simulated_steps":     total.SimSteps,
		"faults_fired":        total.Faults,
		"probes":              total.Probes,
		"discarded":           total.Discards,
		"known_findings_seen": total.Known,
		"runs_per_hour":       int(float64(total.Runs) / wall * 3600),
		"seeds":               fmt.Sprintf("run i uses splitmix64(VERIF_SEED=%d, %s, i), i in [0,%d)", o.Seed, o.Prop, total.Runs),
		"batch_log_hash":      fmt.Sprintf("%016x", total.LogXor),
		"workers":             o.Workers,
	}
	for k, v := range p.Extra() {
		cov[k] = v
	}
	if o.Prop == "C20" {
		cov["stage_b"] = stageB
	}
	ev := evidence{PropertyID: o.Prop, Tier: o.Tier, Seed: int64(o.Seed), Level: p.Level(), Coverage: cov,
		Assumptions: p.Assumptions(), WallS: wall, Violations: nviol}
	if o.Evidence != "" {
		os.MkdirAll(filepath.Dir(o.Evidence), 0o755)
		b, _ := json.MarshalIndent(&ev, "", " ")
		if err := os.WriteFile(o.Evidence, b, 0o644); err != nil {
			fmt.Fprintln(os.Stderr, "runner: write evidence:", err)
			return 2
		}
	}
	fmt.Printf("qsim: %d runs (%d non-trivial, %d distinct), %d discarded, %d simulated steps, %.1fs\n",
		total.Runs, total.Nontrivial, len(sigs), sumMap(total.Discards), total.SimSteps, wall)
	pk := sortedKeys(total.Faults)
	for _, k := range pk {
		fmt.Printf("  fault %-28s fired %d\n", k, total.Faults[k])
	}
	for _, k := range sortedKeys(total.Probes) {
		fmt.Printf("  probe %-28s %d\n", k, total.Probes[k])
	}
	for _, k := range sortedKeys(total.Discards) {
		fmt.Printf("  discard %-26s %d\n", k, total.Discards[k])
	}
	if code == 1 {
		fmt.Printf("VIOLATION property=%s replay=%s\n", o.Prop, replayPath)
	}
	return code
}

func sumMap(m map[string]int) int {
	n := 0
	for _, v := range m {
		n += v
	}
	return n
}

func sortedKeys(m map[string]int) []string {
	var ks []string
	for k := range m {
		ks = append(ks, k)
	}
	sort.Strings(ks)
	return ks
}

// DumpHashes prints "idx hash" lines for runs [0,n) (determinism self-test).
func DumpHashes(o Opts, n int) {
	p := Lookup(o.Prop)
	LoadSites()
	InstallClock()
	w := bufio.NewWriter(os.Stdout)
	defer w.Flush()
	for idx := 0; idx < n; idx++ {
		seed := RunSeed(o.Seed, o.Prop, idx)
		sc, gv := SafeGenerate(p, NewRand(seed), o.Tier)
		sc.Prop, sc.Seed, sc.Tier = o.Prop, seed, o.Tier
		if gv != nil {
			fmt.Fprintf(w, "%d generation-failed %s\n", idx, gv.Msg)
			continue
		}
		b, _ := json.Marshal(sc)
		out := SafeExecute(p, sc)
		v := ""
		if out.Violation != nil {
			v = out.Violation.Oracle
		}
		fmt.Fprintf(w, "%d %016x %016x %d %s %s\n", idx, NewHash().Str(string(b)).Sum(), out.LogHash, out.SimSteps, out.Discard, v)
	}
}
