package sim

import (
	"bytes"
	"fmt"
	"runtime"
	"strconv"
	"time"

	"github.com/sahandsafizadeh/qeep/zzsimhook"
)

// Cooperative yield-granularity scheduler: every task is a real goroutine but
// only the holder of the baton runs; the baton moves inside the yield hook
// when the explicit plan says so. Which goroutine proceeds is never the Go
// runtime's decision.

type Switch struct {
	Step uint64
	Site int
	From int
	To   int
}

type Task struct {
	Run      func()
	Budget   uint64 // max yields while this task holds the baton; 0 = unlimited
	Steps    uint64
	Finished bool
	Panic    any // recovered panic value (nil if none)
	resume   chan struct{}
	gid      uint64
	InCall   bool // set by the task body around library calls (probe)
	Locks    int  // mutexes the task currently holds (dense instrumentation reports them)
}

type Sched struct {
	Tasks          []*Task
	Plan           [][2]int
	Switches       []Switch
	OnSwitch       func(from, to int, site int) // runs with the clock paused
	Foreign        bool                         // a yield arrived from a goroutine that holds no baton
	Bias           int                          // >0: a due plan entry fires only at a yield whose site class equals Bias
	cur            int
	pos            int
	base           uint64
	done           chan struct{}
	Stuck          bool // the tasks did not finish within the wall-clock watchdog (a task blocked for good while holding the baton)
	InCallAtSwitch int  // probe: switches that landed while another task had a call in flight
	OraclePanic    any  // a panic raised while the OnSwitch oracle was reading shared state
}

func (s *Sched) onSwitch(from, to, site int) {
	if s.OnSwitch == nil {
		return
	}
	Pause()
	defer Resume()
	defer func() {
		if r := recover(); r != nil && s.OraclePanic == nil {
			s.OraclePanic = r
		}
	}()
	s.OnSwitch(from, to, site)
}

var active *Sched

func UninstallSched() {
	active = nil
	SetExtraHook(nil)
}

func curGID() uint64 {
	var buf [64]byte
	n := runtime.Stack(buf[:], false)
	// "goroutine 123 ["
	b := buf[:n]
	b = bytes.TrimPrefix(b, []byte("goroutine "))
	i := bytes.IndexByte(b, ' ')
	if i < 0 {
		return 0
	}
	id, _ := strconv.ParseUint(string(b[:i]), 10, 64)
	return id
}

func (s *Sched) hook(site int) {
	t := s.Tasks[s.cur]
	t.Steps++
	if t.Budget != 0 && t.Steps > t.Budget {
		b := t.Budget
		t.Budget = 0
		panic(BudgetExceeded{Budget: b, Site: site})
	}
	if t.Locks > 0 {
		// never park a task inside a critical section: whoever needs that
		// mutex next would block for good while holding the baton
		return
	}
	k := Now() - s.base
	for s.pos < len(s.Plan) && uint64(s.Plan[s.pos][0]) <= k {
		if s.Bias > 0 && SiteClass(site) != s.Bias {
			return
		}
		next := s.Plan[s.pos][1]
		s.pos++
		if next < 0 || next >= len(s.Tasks) || next == s.cur || s.Tasks[next].Finished {
			continue
		}
		if curGID() != t.gid {
			s.Foreign = true
			return
		}
		s.switchTo(next, site)
		return
	}
}

func (s *Sched) switchTo(next int, site int) {
	from := s.cur
	s.Switches = append(s.Switches, Switch{Now() - s.base, site, from, next})
	for i, t := range s.Tasks {
		if i != from && t.InCall && !t.Finished {
			s.InCallAtSwitch++
			break
		}
	}
	s.onSwitch(from, next, site)
	s.cur = next
	SetOwner(s.Tasks[next].gid) // 0 if it has not started yet: set again when it starts
	s.Tasks[next].resume <- struct{}{}
	<-s.Tasks[from].resume
	SetOwner(s.Tasks[from].gid)
}

// Run executes all tasks under the plan, starting with task `first`, and
// returns when every task has finished.
func (s *Sched) Run(first int) {
	if len(s.Tasks) == 0 {
		return
	}
	s.done = make(chan struct{})
	for i, t := range s.Tasks {
		t.resume = make(chan struct{})
		i, t := i, t
		go func() {
			<-t.resume
			t.gid = curGID()
			SetOwner(t.gid)
			func() {
				defer func() {
					if r := recover(); r != nil {
						t.Panic = r
					}
				}()
				t.Run()
			}()
			t.Finished = true
			// hand the baton to the lowest-numbered live task
			for j, u := range s.Tasks {
				if !u.Finished {
					from := i
					s.Switches = append(s.Switches, Switch{Now() - s.base, -1, from, j})
					s.onSwitch(from, j, -1)
					s.cur = j
					SetOwner(u.gid)
					u.resume <- struct{}{}
					return
				}
			}
			close(s.done)
		}()
	}
	s.base = Now()
	s.cur = first
	active = s
	SetExtraHook(s.hook)
	zzsimhook.LockHook = func(d int) {
		if a := active; a != nil && a.cur >= 0 && a.cur < len(a.Tasks) {
			a.Tasks[a.cur].Locks += d
		}
	}
	s.Tasks[first].resume <- struct{}{}
	// Wall-clock watchdog, used for nothing but giving up: if the baton holder
	// blocks for good (a primitive the instrumenter does not know) the run is
	// abandoned and reported as stuck, never as a verdict.
	select {
	case <-s.done:
	case <-time.After(20 * time.Second):
		s.Stuck = true
	}
	zzsimhook.LockHook = nil
	SetOwner(0)
	SetExtraHook(nil)
	active = nil
}

func (s *Sched) String() string {
	return fmt.Sprintf("sched{tasks=%d switches=%d}", len(s.Tasks), len(s.Switches))
}
