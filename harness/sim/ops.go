package sim

import (
	"math"
	"fmt"

	"github.com/sahandsafizadeh/qeep/tensor"
)

// Step is one call issued by a simulated client. Scenarios are lists of
// steps; executing a scenario draws nothing from any PRNG.
type Step struct {
	C   int       `json:"c"`             // client
	Op  string    `json:"op"`            // operation name (see Apply)
	In  []int     `json:"in,omitempty"`  // operand tensor ids
	Out int       `json:"out"`           // id the result is stored under; -1: none
	I   []int     `json:"i,omitempty"`   // dims / shape / dim / index
	R   [][2]int  `json:"r,omitempty"`   // ranges
	F   []float64 `json:"f,omitempty"`   // scalar arguments or flat data
	B   bool      `json:"b,omitempty"`   // tracking flag
	Tag string    `json:"tag,omitempty"` // property specific (fault kind, expectation)
	N   int       `json:"n,omitempty"`   // property specific integer
}

func (s Step) String() string {
	return fmt.Sprintf("c%d %s in=%v out=%d i=%v r=%v f=%v b=%v %s", s.C, s.Op, s.In, s.Out, s.I, s.R, s.F, s.B, s.Tag)
}

// Crossed lists the caller-owned slices that crossed the API boundary in one
// call (for the alias-scribble fault).
type Crossed struct {
	Ints    [][]int
	Ranges  [][]tensor.Range
	Tensors [][]tensor.Tensor
	Rows    [][]float64 // innermost data rows
	Outer   []any       // outer nested slices ([][]float64 etc.), for row swapping
}

// Result of applying a step.
type Result struct {
	T       tensor.Tensor // tensor result (nil if none)
	Scalar  float64       // scalar result of reads
	IsRead  bool
	Bool    bool
	Ints    []int // Shape() result
	Err     error
	Crossed Crossed
	Wrote   string // non-empty: the library changed a slice the caller passed in, during the call
}

// Pool maps ids to tensors.
type Pool struct {
	T map[int]tensor.Tensor
	// Bufs, when non-nil, holds the caller's []int buffers, one per length: every
	// dims / shape / index argument is written into the buffer of its length and
	// that same slice is passed again by later calls (a caller that reuses one
	// slice for many calls)
	Bufs map[int][]int
}

func NewPool() *Pool { return &Pool{T: map[int]tensor.Tensor{}} }

func (p *Pool) Get(id int) (tensor.Tensor, bool) {
	t, ok := p.T[id]
	return t, ok
}

// ErrDangling marks a scenario that refers to a tensor that does not exist
// (only produced by the shrinker; such candidates are rejected).
type ErrDangling struct{ ID int }

func (e ErrDangling) Error() string { return fmt.Sprintf("dangling operand %d", e.ID) }

func conf(tracked bool) *tensor.Config {
	return &tensor.Config{Device: tensor.CPU, GradTrack: tracked}
}

func ranges(r [][2]int) []tensor.Range {
	if r == nil {
		return nil
	}
	out := make([]tensor.Range, len(r))
	for i, x := range r {
		out[i] = tensor.Range{From: x[0], To: x[1]}
	}
	return out
}

func cpInts(a []int) []int {
	if a == nil {
		return nil
	}
	b := make([]int, len(a))
	copy(b, a)
	return b
}

// Nested builds the nested float64 data for TensorOf from dims and flat data.
func Nested(dims []int, flat []float64, cr *Crossed) any {
	switch len(dims) {
	case 0:
		return flat[0]
	case 1:
		row := make([]float64, dims[0])
		copy(row, flat)
		if cr != nil {
			cr.Rows = append(cr.Rows, row)
		}
		return row
	case 2:
		out := make([][]float64, dims[0])
		for i := range out {
			out[i] = Nested(dims[1:], flat[i*dims[1]:], cr).([]float64)
		}
		if cr != nil {
			cr.Outer = append(cr.Outer, out)
		}
		return out
	case 3:
		out := make([][][]float64, dims[0])
		sz := dims[1] * dims[2]
		for i := range out {
			out[i] = Nested(dims[1:], flat[i*sz:], cr).([][]float64)
		}
		if cr != nil {
			cr.Outer = append(cr.Outer, out)
		}
		return out
	case 4:
		out := make([][][][]float64, dims[0])
		sz := dims[1] * dims[2] * dims[3]
		for i := range out {
			out[i] = Nested(dims[1:], flat[i*sz:], cr).([][][]float64)
		}
		if cr != nil {
			cr.Outer = append(cr.Outer, out)
		}
		return out
	}
	panic("harness: rank > 4 data")
}

// TensorOfFlat creates a tensor of any rank 0..4 from flat data.
func TensorOfFlat(dims []int, flat []float64, tracked bool, cr *Crossed) (tensor.Tensor, error) {
	if NElems(dims) != len(flat) {
		panic(fmt.Sprintf("harness: TensorOfFlat dims %v vs %d values", dims, len(flat)))
	}
	switch d := Nested(dims, flat, cr).(type) {
	case float64:
		return tensor.TensorOf(d, conf(tracked))
	case []float64:
		return tensor.TensorOf(d, conf(tracked))
	case [][]float64:
		return tensor.TensorOf(d, conf(tracked))
	case [][][]float64:
		return tensor.TensorOf(d, conf(tracked))
	case [][][][]float64:
		return tensor.TensorOf(d, conf(tracked))
	}
	panic("unreachable")
}

// Leaf creates a leaf of any rank (rank>4 through Reshape of a rank-1 leaf is
// not needed: generators stay within rank 4 for leaves).
func Leaf(dims []int, flat []float64, tracked bool) tensor.Tensor {
	t, err := TensorOfFlat(dims, flat, tracked, nil)
	if err != nil {
		panic(fmt.Sprintf("harness: leaf %v: %v", dims, err))
	}
	return t
}

var UnaryNoArg = []string{"exp", "log", "sin", "cos", "tan", "sinh", "cosh", "tanh", "transpose"}
var UnaryFloat = []string{"scale", "pow"}
var UnaryDim = []string{"unsqueeze", "squeeze", "flatten", "sumalong", "maxalong", "minalong", "avgalong", "varalong", "stdalong", "meanalong"}
var BinaryArith = []string{"add", "sub", "mul", "div"}
var BinarySame = []string{"elmax", "elmin"}
var Comparisons = []string{"eq", "ne", "gt", "ge", "lt", "le"}
var ScalarReads = []string{"sum", "max", "min", "avg", "var", "std", "mean"}

func IsComparison(op string) bool {
	for _, c := range Comparisons {
		if c == op {
			return true
		}
	}
	return false
}

func IsCreator(op string) bool {
	switch op {
	case "full", "zeros", "ones", "eye", "randu", "randn", "tensorof":
		return true
	}
	return false
}

// IsTensorOp reports ops that produce a tensor from operand tensors.
func IsTensorOp(op string) bool {
	switch op {
	case "exp", "log", "sin", "cos", "tan", "sinh", "cosh", "tanh", "transpose",
		"scale", "pow", "unsqueeze", "squeeze", "flatten",
		"sumalong", "maxalong", "minalong", "avgalong", "varalong", "stdalong", "meanalong",
		"reshape", "broadcast", "slice", "patch", "concat",
		"add", "sub", "mul", "div", "elmax", "elmin", "dot", "matmul",
		"eq", "ne", "gt", "ge", "lt", "le":
		return true
	}
	return false
}

// Apply executes one step against the pool using only the public API. The
// result tensor is stored under s.Out when the call succeeds.
func (p *Pool) Apply(s Step) (res Result) {
	in := make([]tensor.Tensor, len(s.In))
	for i, id := range s.In {
		if id == -1 {
			in[i] = nil // deliberate nil operand (invalid-call fault)
			continue
		}
		t, ok := p.T[id]
		if !ok {
			res.Err = ErrDangling{id}
			return
		}
		in[i] = t
	}
	res = applyOn(s, in, p.Bufs)
	if res.Err == nil && res.T != nil && s.Out >= 0 {
		p.T[s.Out] = res.T
	}
	return
}

// ApplyOn executes one step on explicit operand tensors (no pool).
func ApplyOn(s Step, in []tensor.Tensor) (res Result) { return applyOn(s, in, nil) }

func applyOn(s Step, in []tensor.Tensor, bufs map[int][]int) (res Result) {
	cpInts := func(a []int) []int {
		if bufs == nil || len(a) == 0 {
			return cpInts(a)
		}
		b, ok := bufs[len(a)]
		if !ok {
			b = make([]int, len(a))
			bufs[len(a)] = b
		}
		copy(b, a)
		return b
	}
	defer func() {
		// slices the caller passed in belong to the caller: when the call returns
		// they must hold what the caller put there
		cr := &res.Crossed
		if s.Op != "shape" {
			for _, d := range cr.Ints {
				if len(d) != len(s.I) {
					res.Wrote = fmt.Sprintf("an []int argument of %s has length %d after the call, %d before", s.Op, len(d), len(s.I))
					return
				}
				for i := range d {
					if d[i] != s.I[i] {
						res.Wrote = fmt.Sprintf("the []int argument of %s reads %v after the call, the caller passed %v", s.Op, d, s.I)
						return
					}
				}
			}
		}
		for _, r := range cr.Ranges {
			if len(r) != len(s.R) {
				res.Wrote = fmt.Sprintf("the index argument of %s has length %d after the call, %d before", s.Op, len(r), len(s.R))
				return
			}
			for i := range r {
				if r[i].From != s.R[i][0] || r[i].To != s.R[i][1] {
					res.Wrote = fmt.Sprintf("the index argument of %s reads %v after the call, the caller passed %v", s.Op, r, s.R)
					return
				}
			}
		}
		for _, ts := range cr.Tensors {
			if len(ts) != len(in) {
				res.Wrote = fmt.Sprintf("the tensor list of %s has length %d after the call, %d before", s.Op, len(ts), len(in))
				return
			}
			for i := range ts {
				if ts[i] != in[i] {
					res.Wrote = fmt.Sprintf("entry %d of the tensor list of %s holds another tensor after the call", i, s.Op)
					return
				}
			}
		}
		if s.Op == "tensorof" {
			k := 0
			for _, row := range cr.Rows {
				for _, v := range row {
					if k >= len(s.F) || math.Float64bits(v) != math.Float64bits(s.F[k]) {
						res.Wrote = "a data row passed to TensorOf holds other values after the call"
						return
					}
					k++
				}
			}
		}
	}()
	need := func(n int) bool {
		if len(in) < n {
			res.Err = ErrDangling{-2}
			return false
		}
		return true
	}
	f := func(i int) float64 {
		if i < len(s.F) {
			return s.F[i]
		}
		return 0
	}
	iarg := func(i int) int {
		if i < len(s.I) {
			return s.I[i]
		}
		return 0
	}
	cr := &res.Crossed
	var t tensor.Tensor
	var err error
	// receiver nil cannot be called; treat as the binary op's nil-argument on a valid receiver
	switch s.Op {
	/* creators */
	case "full":
		d := cpInts(s.I)
		cr.Ints = append(cr.Ints, d)
		t, err = tensor.Full(d, f(0), conf(s.B))
	case "zeros":
		d := cpInts(s.I)
		cr.Ints = append(cr.Ints, d)
		t, err = tensor.Zeros(d, conf(s.B))
	case "ones":
		d := cpInts(s.I)
		cr.Ints = append(cr.Ints, d)
		t, err = tensor.Ones(d, conf(s.B))
	case "eye":
		t, err = tensor.Eye(iarg(0), conf(s.B))
	case "randu":
		d := cpInts(s.I)
		cr.Ints = append(cr.Ints, d)
		t, err = tensor.RandU(d, f(0), f(1), conf(s.B))
	case "randn":
		d := cpInts(s.I)
		cr.Ints = append(cr.Ints, d)
		t, err = tensor.RandN(d, f(0), f(1), conf(s.B))
	case "tensorof":
		t, err = TensorOfFlat(s.I, s.F, s.B, cr)
	/* unary, no argument */
	case "exp", "log", "sin", "cos", "tan", "sinh", "cosh", "tanh", "scale", "pow":
		if !need(1) || in[0] == nil {
			res.Err = ErrDangling{-2}
			return
		}
		switch s.Op {
		case "exp":
			t = in[0].Exp()
		case "log":
			t = in[0].Log()
		case "sin":
			t = in[0].Sin()
		case "cos":
			t = in[0].Cos()
		case "tan":
			t = in[0].Tan()
		case "sinh":
			t = in[0].Sinh()
		case "cosh":
			t = in[0].Cosh()
		case "tanh":
			t = in[0].Tanh()
		case "scale":
			t = in[0].Scale(f(0))
		case "pow":
			t = in[0].Pow(f(0))
		}
	default:
		if IsCreator(s.Op) {
			break
		}
		if !need(1) || in[0] == nil {
			res.Err = ErrDangling{-2}
			return
		}
		x := in[0]
		switch s.Op {
		case "transpose":
			t, err = x.Transpose()
		case "unsqueeze":
			t, err = x.UnSqueeze(iarg(0))
		case "squeeze":
			t, err = x.Squeeze(iarg(0))
		case "flatten":
			t, err = x.Flatten(iarg(0))
		case "sumalong":
			t, err = x.SumAlong(iarg(0))
		case "maxalong":
			t, err = x.MaxAlong(iarg(0))
		case "minalong":
			t, err = x.MinAlong(iarg(0))
		case "avgalong":
			t, err = x.AvgAlong(iarg(0))
		case "varalong":
			t, err = x.VarAlong(iarg(0))
		case "stdalong":
			t, err = x.StdAlong(iarg(0))
		case "meanalong":
			t, err = x.MeanAlong(iarg(0))
		case "reshape":
			d := cpInts(s.I)
			if d == nil {
				d = []int{}
			}
			cr.Ints = append(cr.Ints, d)
			t, err = x.Reshape(d)
		case "broadcast":
			d := cpInts(s.I)
			if d == nil {
				d = []int{}
			}
			cr.Ints = append(cr.Ints, d)
			t, err = x.Broadcast(d)
		case "slice":
			r := ranges(s.R)
			cr.Ranges = append(cr.Ranges, r)
			t, err = x.Slice(r)
		case "patch":
			if !need(2) {
				return
			}
			r := ranges(s.R)
			cr.Ranges = append(cr.Ranges, r)
			t, err = x.Patch(r, in[1])
		case "concat":
			ts := make([]tensor.Tensor, len(in))
			copy(ts, in)
			cr.Tensors = append(cr.Tensors, ts)
			t, err = tensor.Concat(ts, iarg(0))
		case "add", "sub", "mul", "div", "elmax", "elmin", "dot", "matmul", "eq", "ne", "gt", "ge", "lt", "le":
			if !need(2) {
				return
			}
			y := in[1]
			switch s.Op {
			case "add":
				t, err = x.Add(y)
			case "sub":
				t, err = x.Sub(y)
			case "mul":
				t, err = x.Mul(y)
			case "div":
				t, err = x.Div(y)
			case "elmax":
				t, err = x.ElMax(y)
			case "elmin":
				t, err = x.ElMin(y)
			case "dot":
				t, err = x.Dot(y)
			case "matmul":
				t, err = x.MatMul(y)
			case "eq":
				t, err = x.Eq(y)
			case "ne":
				t, err = x.Ne(y)
			case "gt":
				t, err = x.Gt(y)
			case "ge":
				t, err = x.Ge(y)
			case "lt":
				t, err = x.Lt(y)
			case "le":
				t, err = x.Le(y)
			}
		/* control */
		case "backprop":
			res.Err = tensor.BackPropagate(x)
			return
		case "reset":
			x.ResetGradContext(s.B)
			return
		case "grad":
			res.T = x.Gradient()
			return
		/* reads */
		case "at":
			idx := cpInts(s.I)
			cr.Ints = append(cr.Ints, idx)
			res.Scalar, res.Err = x.At(idx...)
			res.IsRead = true
			return
		case "shape":
			res.Ints = x.Shape()
			cr.Ints = append(cr.Ints, res.Ints)
			res.IsRead = true
			return
		case "nelems":
			res.Scalar = float64(x.NElems())
			res.IsRead = true
			return
		case "sum":
			res.Scalar, res.IsRead = x.Sum(), true
			return
		case "max":
			res.Scalar, res.IsRead = x.Max(), true
			return
		case "min":
			res.Scalar, res.IsRead = x.Min(), true
			return
		case "avg":
			res.Scalar, res.IsRead = x.Avg(), true
			return
		case "var":
			res.Scalar, res.IsRead = x.Var(), true
			return
		case "std":
			res.Scalar, res.IsRead = x.Std(), true
			return
		case "mean":
			res.Scalar, res.IsRead = x.Mean(), true
			return
		case "equals":
			if !need(2) {
				return
			}
			res.Bool, res.Err = x.Equals(in[1])
			res.IsRead = true
			return
		default:
			panic("harness: unknown op " + s.Op)
		}
	}
	res.T, res.Err = t, err
	if err != nil {
		res.T = nil
	}
	return
}

// BackPropNil issues BackPropagate(nil) (invalid-call fault).
func BackPropNil() error { return tensor.BackPropagate(nil) }
