package sim

import (
	"fmt"
	"math"
	"reflect"

	"github.com/sahandsafizadeh/qeep/tensor"
)

var tensorIface = reflect.TypeOf((*tensor.Tensor)(nil)).Elem()

// Values reads every element through the public At, row-major.
func Values(t tensor.Tensor) []float64 {
	shape := t.Shape()
	n := 1
	for _, d := range shape {
		n *= d
	}
	out := make([]float64, 0, n)
	idx := make([]int, len(shape))
	for k := 0; k < n; k++ {
		v, err := t.At(idx...)
		if err != nil {
			// Shape() and At() of one tensor disagree: the library's own state is
			// inconsistent (e.g. its dims were overwritten); reported as a violation
			panic(fmt.Sprintf("tensor inconsistent: Shape() is %v but At%v fails: %v", shape, idx, err))
		}
		out = append(out, v)
		for i := len(idx) - 1; i >= 0; i-- {
			idx[i]++
			if idx[i] < shape[i] {
				break
			}
			idx[i] = 0
		}
	}
	return out
}

func NElems(shape []int) int {
	n := 1
	for _, d := range shape {
		n *= d
	}
	return n
}

func ShapeEq(a, b []int) bool {
	if len(a) != len(b) {
		return false
	}
	for i := range a {
		if a[i] != b[i] {
			return false
		}
	}
	return true
}

// ValFP hashes shape and elements only (bitwise; NaNs by payload).
func ValFP(t tensor.Tensor) uint64 {
	if t == nil {
		return 0
	}
	h := NewHash().Str("val")
	for _, d := range t.Shape() {
		h = h.Int(d)
	}
	h = h.Byte(0xfe)
	for _, v := range Values(t) {
		h = h.F64(v)
	}
	return h.Sum()
}

// PubFP hashes what the public API shows of a tensor: shape, elements,
// nil-ness and contents of its gradient.
func PubFP(t tensor.Tensor) uint64 {
	if t == nil {
		return 0
	}
	h := NewHash().U64(ValFP(t))
	g := t.Gradient()
	if g == nil {
		h = h.Byte(0)
	} else {
		h = h.Byte(1).U64(ValFP(g))
	}
	return h.Sum()
}

// DeepFP hashes everything reachable from the tensor value by reflection —
// data, dims, every field of its grad context — recording only nil / non-nil
// for any other tensor it points to and for functions. It names no field.
func DeepFP(t tensor.Tensor) uint64 {
	if t == nil {
		return 0
	}
	w := &deepWalker{h: NewHash().Str("deep"), seen: map[uintptr]bool{}}
	v := reflect.ValueOf(t)
	w.walk(v, true)
	return w.h.Sum()
}

type deepWalker struct {
	h    Hash64
	seen map[uintptr]bool
}

func (w *deepWalker) walk(v reflect.Value, root bool) {
	if !v.IsValid() {
		w.h = w.h.Byte(0xf0)
		return
	}
	switch v.Kind() {
	case reflect.Bool:
		if v.Bool() {
			w.h = w.h.Byte(1)
		} else {
			w.h = w.h.Byte(0)
		}
	case reflect.Int, reflect.Int8, reflect.Int16, reflect.Int32, reflect.Int64:
		w.h = w.h.U64(uint64(v.Int()))
	case reflect.Uint, reflect.Uint8, reflect.Uint16, reflect.Uint32, reflect.Uint64, reflect.Uintptr:
		w.h = w.h.U64(v.Uint())
	case reflect.Float32, reflect.Float64:
		w.h = w.h.U64(math.Float64bits(v.Float()))
	case reflect.Complex64, reflect.Complex128:
		c := v.Complex()
		w.h = w.h.F64(real(c)).F64(imag(c))
	case reflect.String:
		w.h = w.h.Str(v.String())
	case reflect.Func, reflect.Chan, reflect.UnsafePointer:
		if v.IsNil() {
			w.h = w.h.Byte(0)
		} else {
			w.h = w.h.Byte(1)
		}
	case reflect.Interface:
		if v.IsNil() {
			w.h = w.h.Byte(0xe0)
			return
		}
		w.walk(v.Elem(), false)
	case reflect.Ptr:
		if v.IsNil() {
			w.h = w.h.Byte(0xe1)
			return
		}
		if !root && v.Type().Implements(tensorIface) {
			w.h = w.h.Byte(0xe2) // another tensor: non-nil only
			return
		}
		p := v.Pointer()
		if w.seen[p] {
			w.h = w.h.Byte(0xe3)
			return
		}
		w.seen[p] = true
		w.h = w.h.Byte(0xe4)
		w.walk(v.Elem(), false)
	case reflect.Slice:
		if v.IsNil() {
			w.h = w.h.Byte(0xe5)
			return
		}
		w.h = w.h.Byte(0xe6).Int(v.Len())
		for i := 0; i < v.Len(); i++ {
			w.walk(v.Index(i), false)
		}
	case reflect.Array:
		w.h = w.h.Byte(0xe7).Int(v.Len())
		for i := 0; i < v.Len(); i++ {
			w.walk(v.Index(i), false)
		}
	case reflect.Struct:
		w.h = w.h.Byte(0xe8).Int(v.NumField())
		for i := 0; i < v.NumField(); i++ {
			w.walk(v.Field(i), false)
		}
	case reflect.Map:
		// order-independent: sum of entry hashes
		if v.IsNil() {
			w.h = w.h.Byte(0xe9)
			return
		}
		w.h = w.h.Byte(0xea).Int(v.Len())
		var acc uint64
		it := v.MapRange()
		for it.Next() {
			sub := &deepWalker{h: NewHash(), seen: w.seen}
			sub.walk(it.Key(), false)
			sub.walk(it.Value(), false)
			acc += sub.h.Sum()
		}
		w.h = w.h.U64(acc)
	default:
		w.h = w.h.Byte(0xef)
	}
}

// DeepFPAny fingerprints an arbitrary object (layer, metric, loss) the same
// way; tensors it points to directly are entered one level (their own state),
// which is what "the object and the tensors in its slots" means for a layer.
func DeepFPAny(x any) uint64 {
	w := &deepWalker{h: NewHash().Str("deepany"), seen: map[uintptr]bool{}}
	v := reflect.ValueOf(x)
	w.walkObj(v)
	return w.h.Sum()
}

func (w *deepWalker) walkObj(v reflect.Value) {
	if !v.IsValid() {
		return
	}
	switch v.Kind() {
	case reflect.Ptr:
		if v.IsNil() {
			w.h = w.h.Byte(0xe1)
			return
		}
		if v.Type().Implements(tensorIface) {
			w.h = w.h.U64(DeepFP(v.Interface().(tensor.Tensor)))
			return
		}
		w.walkObj(v.Elem())
	case reflect.Interface:
		if v.IsNil() {
			w.h = w.h.Byte(0xe0)
			return
		}
		w.walkObj(v.Elem())
	case reflect.Struct:
		for i := 0; i < v.NumField(); i++ {
			f := v.Field(i)
			if (f.Kind() == reflect.Interface || f.Kind() == reflect.Ptr) && f.CanInterface() {
				w.walkObj(f)
			} else {
				w.walk(f, false)
			}
		}
	default:
		w.walk(v, false)
	}
}
