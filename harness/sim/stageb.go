package sim

import (
	"bytes"
	"encoding/json"
	"fmt"
	"os"
	"os/exec"
	"path/filepath"
	"regexp"
	"strconv"
	"strings"
	"time"
)

// Stage B of C20: the same generated scenarios on an uninstrumented build
// with the race detector and real parallelism. The interleavings are the Go
// scheduler's (runtime monitoring, labelled as such in the evidence).

// RaceWorker runs indices from, from+stride, ...; prints "RUN <idx>" before
// each scenario so that the parent can attribute a race report.
func RaceWorker(o Opts, from, stride int) {
	p := Lookup(o.Prop)
	if p == nil {
		fmt.Fprintln(os.Stderr, "runner: unknown property", o.Prop)
		os.Exit(2)
	}
	deadline := time.Now().Add(o.Budget)
	runs := 0
	for idx := from; o.MaxRuns <= 0 || idx < o.MaxRuns; idx += stride {
		if time.Now().After(deadline) {
			break
		}
		seed := RunSeed(o.Seed, o.Prop, idx)
		sc, gv := SafeGenerate(p, NewRand(seed), o.Tier)
		sc.Prop, sc.Seed, sc.Tier = o.Prop, seed, o.Tier
		fmt.Printf("RUN %d\n", idx)
		if gv != nil {
			b, _ := json.Marshal(&FoundViolation{Idx: idx, Scenario: sc, V: *gv})
			fmt.Printf("VIOL %s\n", b)
			break
		}
		if f := os.Getenv("QV_STAGEB_SCEN"); f != "" {
			// the scenario being run, for the parent to pick up if the race detector stops this process
			b, _ := json.Marshal(sc)
			os.WriteFile(f, b, 0o644)
		}
		out := SafeExecute(p, sc)
		runs++
		if out.Violation != nil {
			b, _ := json.Marshal(&FoundViolation{Idx: idx, Scenario: sc, V: *out.Violation})
			fmt.Printf("VIOL %s\n", b)
			break
		}
	}
	fmt.Printf("DONE %d\n", runs)
}

type StageBResult struct {
	Runs      int
	Violation *FoundViolation
	RaceText  string
	Err       error
}

var runLine = regexp.MustCompile(`(?m)^RUN (\d+)$`)
var doneLine = regexp.MustCompile(`(?m)^DONE (\d+)$`)

func StageB(o Opts, raceRunner string, workers int, budget time.Duration) StageBResult {
	type res struct {
		out, errs string
		err       error
		w         int
	}
	ch := make(chan res, workers)
	for w := 0; w < workers; w++ {
		go func(w int) {
			cmd := exec.Command(raceRunner, "-raceworker", "-prop", o.Prop, "-tier", o.Tier,
				"-seed", strconv.FormatUint(o.Seed, 10), "-from", strconv.Itoa(w), "-stride", strconv.Itoa(workers),
				"-budget", budget.String(), "-maxruns", strconv.Itoa(o.MaxRuns), "-known", o.Known)
			gmp := "16"
			if w%2 == 1 {
				gmp = "4"
			}
			scenFile := filepath.Join(os.TempDir(), fmt.Sprintf("qv-stageb-%d-%d.json", os.Getpid(), w))
			cmd.Env = append(os.Environ(), "GOMAXPROCS="+gmp, "GORACE=halt_on_error=1 exitcode=66", "QV_STAGEB_SCEN="+scenFile)
			defer os.Remove(scenFile)
			var so, se bytes.Buffer
			cmd.Stdout, cmd.Stderr = &so, &se
			err := cmd.Run()
			ch <- res{so.String(), se.String(), err, w}
		}(w)
	}
	var r StageBResult
	for w := 0; w < workers; w++ {
		x := <-ch
		if m := doneLine.FindStringSubmatch(x.out); m != nil {
			n, _ := strconv.Atoi(m[1])
			r.Runs += n
		} else {
			r.Runs += len(runLine.FindAllString(x.out, -1))
		}
		if i := strings.Index(x.out, "VIOL "); i >= 0 && r.Violation == nil {
			line := x.out[i+5:]
			if j := strings.IndexByte(line, '\n'); j >= 0 {
				line = line[:j]
			}
			var fv FoundViolation
			if json.Unmarshal([]byte(line), &fv) == nil {
				r.Violation = &fv
			}
		}
		if strings.Contains(x.errs, "WARNING: DATA RACE") && r.Violation == nil {
			all := runLine.FindAllStringSubmatch(x.out, -1)
			idx := -1
			if len(all) > 0 {
				idx, _ = strconv.Atoi(all[len(all)-1][1])
			}
			txt := x.errs
			if len(txt) > 3000 {
				txt = txt[:3000]
			}
			r.RaceText = txt
			fv := &FoundViolation{Idx: idx, V: Violation{Oracle: "data-race", Msg: "stage B: the Go race detector reported a data race while the tasks of this scenario ran in parallel:\n" + txt}}
			if b, err := os.ReadFile(filepath.Join(os.TempDir(), fmt.Sprintf("qv-stageb-%d-%d.json", os.Getpid(), x.w))); err == nil {
				var sc Scenario
				if json.Unmarshal(b, &sc) == nil {
					fv.Scenario = &sc
				}
			}
			r.Violation = fv
		} else if x.err != nil && r.Violation == nil && r.Err == nil && !strings.Contains(x.out, "VIOL ") {
			r.Err = fmt.Errorf("race worker %d failed: %v\n%s", x.w, x.err, x.errs)
		}
	}
	return r
}

// WriteStageBReplay stores the scenario (stage B files are re-run up to 20
// times by `check replay`; the interleaving is not controlled).
func WriteStageBReplay(o Opts, p Property, fv *FoundViolation) (string, error) {
	sc := fv.Scenario
	if sc == nil {
		seed := RunSeed(o.Seed, o.Prop, fv.Idx)
		sc = p.Generate(NewRand(seed), o.Tier)
		sc.Prop, sc.Seed, sc.Tier = o.Prop, seed, o.Tier
	}
	if sc.S == nil {
		sc.S = map[string]string{}
	}
	sc.S["stage"] = "B"
	rf := struct {
		ReplayFile
		Stage string `json:"stage"`
	}{ReplayFile{Property: o.Prop, Seed: o.Seed, RunIndex: fv.Idx, Tier: o.Tier, Oracle: fv.V.Oracle, Message: fv.V.Msg, Scenario: sc}, "B"}
	os.MkdirAll(o.Replays, 0o755)
	path := filepath.Join(o.Replays, fmt.Sprintf("%s-%d-%d-stageB.json", o.Prop, o.Seed, fv.Idx))
	b, _ := json.MarshalIndent(&rf, "", " ")
	return path, os.WriteFile(path, b, 0o644)
}
