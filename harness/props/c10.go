package props

import (
	"fmt"
	"math"
	"reflect"

	"github.com/sahandsafizadeh/qeep/component/initializers"
	"github.com/sahandsafizadeh/qeep/component/layers"
	"github.com/sahandsafizadeh/qeep/component/layers/activations"
	"github.com/sahandsafizadeh/qeep/component/optimizers"
	"github.com/sahandsafizadeh/qeep/tensor"

	"qverif/sim"
)

// C10 — tensors are immutable values decoupled from caller-owned slices.
//
// Steps: creators, "init" (N = initializer kind, I = shape), every tensor
// operation, reads ("at", "shape", ...), "fcforward" (In[0] = input),
// "backprop", "reset", "update" (In[0] = tensor behind a harness-owned slot,
// Out = replacement), "fcupdate"/"fcreset" (N = 0 weight, 1 bias).
// Fault: op "scribble", N = index of the crossing (k-th caller-visible slice
// that crossed the API boundary, in execution order), Tag = pattern.
// Cfg["enum"] = 1|2: Execute enumerates scribble placements itself
// (1 = quick instants, 2 = every later instant).
type c10 struct{}

func init() { sim.Register(c10{}) }

func (c10) ID() string    { return "C10" }
func (c10) Level() string { return "fault_enumeration" }
func (c10) Rule() string {
	return "seeded programs over the slice-taking / slice-returning public surface (Full/Zeros/Ones/RandU/RandN dims, TensorOf outer slice and rows, Reshape/Broadcast shape, Slice/Patch index, Concat list, At index, Shape() result, Initializer.Init shape, FC.Forward inputs) followed by further operations, BackPropagate, SGD.Update and ResetGradContext. Fault alias-scribble: for each program every registered slice x {immediately after the call, just before each later BackPropagate, at the end} (quick) or x every later instant (thorough) is executed with the caller overwriting that slice; oracle = twin run without scribble, every observation bitwise equal; immutability invariants after every step of every run. Non-trivial: a program in which a scribble landed between a forward call and a later BackPropagate whose graph contains that call's result. Distinct: hash of the program's (op, operands, arguments-shape) sequence. Also: rejected calls from the shared invalid-call catalogue (nothing may change), callers that reuse one []int per length, comparison masks, a long-lived leaf collecting 34-90 gradient terms; after every call the caller's argument slices must hold what the caller put there."
}
func (c10) Assumptions() []string {
	return []string{
		"a scribble overwrites every element of the slice with garbage of the same type (negative / huge ints, reversed / oversized ranges, nil or swapped tensors, NaN data, nil or swapped rows); slices are never grown (append could not be seen by the library anyway)",
		"'upstream of the root' for the rule 'only BackPropagate assigns gradients' is computed from the program's operand links",
		"the library's RNG is re-seeded identically for twin and faulted run",
	}
}
func (c10) Extra() map[string]any {
	e := baseExtra()
	e["fault_kinds"] = []string{"alias-scribble", "invalid-call (the shared catalogue of rejected calls)", "caller reuses one []int per length for every call"}
	return e
}

/* ---------- execution machinery ---------- */

type crossing struct {
	step int
	kind string // ints | ranges | tensors | row | outer
	ref  any
}

type hInit struct {
	vals []float64
}

func (h hInit) Init(shape []int) (tensor.Tensor, error) {
	n := sim.NElems(shape)
	v := make([]float64, n)
	for i := range v {
		v[i] = h.vals[i%len(h.vals)]
	}
	return sim.TensorOfFlat(shape, v, true, nil)
}

type run10 struct {
	pool      *sim.Pool
	order     []int         // pool ids in creation order
	operands  map[int][]int // model operand links (for upstream)
	obs       []uint64      // one observation per non-scribble step
	cross     []crossing
	fc        *layers.FC
	fcW, fcB  int // current pool ids of the layer's parameters
	sgd       *optimizers.SGD
	viol      *sim.Violation
	discard   string
	fired     map[string]int
	k         int
	lastErr   bool
	bpSteps   []int // indices (in non-scribble numbering) of backprop steps
	held      []heldErr
	stepRoots map[int]int
}

func scribble(c crossing, pattern int) string {
	switch c.kind {
	case "ints":
		s := c.ref.([]int)
		g := []int{-7, 5, 0, -1, 7} // wrong but small: a huge size would make a retaining library allocate until the process dies
		for i := range s {
			s[i] = g[(i+pattern)%len(g)]
		}
		return "ints"
	case "ranges":
		s := c.ref.([]tensor.Range)
		for i := range s {
			if (i+pattern)%2 == 0 {
				s[i] = tensor.Range{From: 9, To: -3}
			} else {
				s[i] = tensor.Range{From: -1, To: 6}
			}
		}
		return "ranges"
	case "tensors":
		s := c.ref.([]tensor.Tensor)
		if len(s) >= 2 && pattern%2 == 0 {
			s[0], s[len(s)-1] = s[len(s)-1], s[0]
			s[0] = nil
		} else {
			for i := range s {
				s[i] = nil
			}
		}
		return "tensors"
	case "row":
		s := c.ref.([]float64)
		for i := range s {
			if (i+pattern)%2 == 0 {
				s[i] = math.NaN()
			} else {
				s[i] = -1e300
			}
		}
		return "data-row"
	case "outer":
		v := reflect.ValueOf(c.ref)
		n := v.Len()
		if n >= 2 && pattern%2 == 0 {
			a := reflect.ValueOf(v.Index(0).Interface())
			v.Index(0).Set(v.Index(n - 1))
			v.Index(n - 1).Set(a)
		}
		v.Index(0).Set(reflect.Zero(v.Type().Elem()))
		return "data-outer"
	}
	return ""
}

var c10InitKinds = []string{"full", "uniform", "normal", "heuniform", "henormal", "xavieruniform", "xaviernormal"}

func c10Initializer(kind int) layers.Initializer {
	var in layers.Initializer
	var err error
	switch c10InitKinds[kind%len(c10InitKinds)] {
	case "full":
		in = initializers.NewFull(&initializers.FullConfig{Value: 0.75})
	case "uniform":
		in, err = initializers.NewUniform(nil)
	case "normal":
		in, err = initializers.NewNormal(nil)
	case "heuniform":
		in, err = initializers.NewHeUniform(&initializers.HeUniformConfig{FanIn: 3})
	case "henormal":
		in, err = initializers.NewHeNormal(&initializers.HeNormalConfig{FanIn: 3})
	case "xavieruniform":
		in, err = initializers.NewXavierUniform(&initializers.XavierUniformConfig{FanIn: 3, FanOut: 2})
	case "xaviernormal":
		in, err = initializers.NewXavierNormal(&initializers.XavierNormalConfig{FanIn: 3, FanOut: 2})
	}
	if err != nil {
		sim.Bug("initializer: %v", err)
	}
	return in
}

func c10Acts() []act {
	sm0, _ := activations.NewSoftmax(nil)
	sm1, _ := activations.NewSoftmax(&activations.SoftmaxConfig{Dim: 1})
	return []act{activations.NewRelu(), activations.NewLeakyRelu(nil), activations.NewSigmoid(), activations.NewTanh(), sm0, sm1}
}

func newRun10(sc *sim.Scenario) *run10 {
	r := &run10{pool: sim.NewPool(), operands: map[int][]int{}, fired: map[string]int{}, stepRoots: map[int]int{}, fcW: -1, fcB: -1}
	r.sgd = optimizers.NewSGD(&optimizers.SGDConfig{LearningRate: 0.1})
	if sc.Cfg["reusebuf"] == 1 {
		r.pool.Bufs = map[int][]int{}
	}
	if o := sc.CfgInt("fcout"); o > 0 {
		w, b := sc.Data["fcW"], sc.Data["fcB"]
		if len(w) == 0 || len(b) == 0 {
			r.discard = "malformed"
			return r
		}
		fc, err := layers.NewFC(&layers.FCConfig{Inputs: sc.CfgInt("fcin"), Outputs: o,
			Initializers: map[string]layers.Initializer{"Weight": hInit{w}, "Bias": hInit{b}}})
		if err != nil {
			r.discard = "malformed"
			return r
		}
		r.fc = fc
		r.fcW, r.fcB = 1000, 1001
		ws := fc.Weights()
		r.pool.T[1000], r.pool.T[1001] = *ws[0].Value, *ws[1].Value
		r.order = append(r.order, 1000, 1001)
	}
	return r
}

func (r *run10) upstream(root int) map[int]bool {
	out := map[int]bool{}
	var walk func(id int)
	walk = func(id int) {
		if out[id] {
			return
		}
		out[id] = true
		for _, o := range r.operands[id] {
			walk(o)
		}
	}
	walk(root)
	return out
}

type snap10 struct{ val, pub, deep uint64 }

// an error value returned by a rejected call and still held by the caller
type heldErr struct {
	err   error
	text  string
	where string
}

func (r *run10) snapshot() map[int]snap10 {
	s := make(map[int]snap10, len(r.order))
	for _, id := range r.order {
		t := r.pool.T[id]
		s[id] = snap10{sim.ValFP(t), sim.PubFP(t), sim.DeepFP(t)}
	}
	return s
}

func (r *run10) fail(oracle, format string, a ...any) {
	if r.viol == nil {
		r.viol = &sim.Violation{Oracle: oracle, Msg: fmt.Sprintf(format, a...)}
	}
}

// invariants: mayChange = ids whose own state / gradient may change in this step.
func (r *run10) invariants(before map[int]snap10, mayChange map[int]bool, where string) {
	for _, id := range r.order {
		b, ok := before[id]
		if !ok {
			continue
		}
		t := r.pool.T[id]
		if sim.ValFP(t) != b.val {
			r.fail("immutability", "%s: shape or elements of existing tensor %d changed", where, id)
			return
		}
		if mayChange[id] {
			continue
		}
		if sim.PubFP(t) != b.pub {
			r.fail("gradient-assigned-outside-backprop", "%s: the gradient of tensor %d changed", where, id)
			return
		}
		if sim.DeepFP(t) != b.deep {
			r.fail("state-changed", "%s: tracking state of tensor %d changed", where, id)
			return
		}
	}
}

func (r *run10) reg(step int, cr sim.Crossed) {
	for _, s := range cr.Ints {
		if len(s) > 0 {
			r.cross = append(r.cross, crossing{step, "ints", s})
		}
	}
	for _, s := range cr.Ranges {
		if len(s) > 0 {
			r.cross = append(r.cross, crossing{step, "ranges", s})
		}
	}
	for _, s := range cr.Tensors {
		if len(s) > 0 {
			r.cross = append(r.cross, crossing{step, "tensors", s})
		}
	}
	for _, s := range cr.Rows {
		if len(s) > 0 {
			r.cross = append(r.cross, crossing{step, "row", s})
		}
	}
	for _, s := range cr.Outer {
		r.cross = append(r.cross, crossing{step, "outer", s})
	}
}

// exec runs all steps; scribble steps act on the crossing registry.
func (r *run10) exec(sc *sim.Scenario, check bool) {
	sim.SeedLibraryRNG(uint64(sc.Cfg["rngseed"]))
	r.execSteps(sc, check, true)
}

// execNoSeed runs steps on an existing run without reseeding, checks or the
// final observation (the generator's live run).
func (r *run10) execNoSeed(sc *sim.Scenario) { r.execSteps(sc, false, false) }

func (r *run10) execSteps(sc *sim.Scenario, check bool, final bool) {
	k := r.k // non-scribble step counter
	defer func() { r.k = k }()
	for _, st := range sc.Steps {
		if st.Op == "scribble" {
			if st.N < 0 || st.N >= len(r.cross) {
				r.discard = "scribble-target-missing"
				return
			}
			kind := scribble(r.cross[st.N], len(st.Tag))
			r.fired["alias-scribble/"+kind]++
			continue
		}
		where := fmt.Sprintf("step %d (%s in=%v)", k, st.Op, st.In)
		var before map[int]snap10
		if check {
			sim.Pause()
			before = r.snapshot()
			sim.Resume()
		}
		h := sim.NewHash().Str(st.Op)
		may := map[int]bool{}
		for _, id := range st.In {
			if _, ok := r.pool.T[id]; !ok && id != -1 {
				r.discard = "dangling"
				return
			}
		}
		switch st.Op {
		case "init":
			shape := cpI(st.I)
			t, err := c10Initializer(st.N).Init(shape)
			r.reg(k, sim.Crossed{Ints: [][]int{shape}})
			if err != nil || t == nil {
				r.discard = "forward-error"
				return
			}
			r.pool.T[st.Out] = t
			r.order = append(r.order, st.Out)
			sim.Pause()
			h = h.U64(sim.PubFP(t))
			sim.Resume()
		case "fcforward":
			if r.fc == nil {
				r.discard = "malformed"
				return
			}
			xs := []tensor.Tensor{r.pool.T[st.In[0]]}
			y, err := r.fc.Forward(xs...)
			r.reg(k, sim.Crossed{Tensors: [][]tensor.Tensor{xs}})
			if check && xs[0] != r.pool.T[st.In[0]] {
				r.fail("library-wrote-caller-slice", "%s: the input list spread into FC.Forward holds another tensor after the call", where)
				return
			}
			if err != nil || y == nil {
				r.discard = "forward-error"
				return
			}
			r.pool.T[st.Out] = y
			r.order = append(r.order, st.Out)
			r.operands[st.Out] = []int{st.In[0], r.fcW, r.fcB}
			sim.Pause()
			h = h.U64(sim.PubFP(y))
			sim.Resume()
		case "act":
			xs := []tensor.Tensor{r.pool.T[st.In[0]]}
			y, err := c10Acts()[st.N%6].Forward(xs...)
			r.reg(k, sim.Crossed{Tensors: [][]tensor.Tensor{xs}})
			if check && xs[0] != r.pool.T[st.In[0]] {
				r.fail("library-wrote-caller-slice", "%s: the input list spread into an activation's Forward holds another tensor after the call", where)
				return
			}
			if err != nil || y == nil {
				h = h.Str("error")
				r.lastErr = true
				break
			}
			r.pool.T[st.Out] = y
			r.order = append(r.order, st.Out)
			r.operands[st.Out] = []int{st.In[0]}
			sim.Pause()
			h = h.U64(sim.PubFP(y))
			sim.Resume()
		case "update", "fcupdate":
			var slot *tensor.Tensor
			var old int
			if st.Op == "update" {
				v := r.pool.T[st.In[0]]
				slot, old = &v, st.In[0]
			} else {
				if r.fc == nil {
					r.discard = "malformed"
					return
				}
				slot = r.fc.Weights()[st.N%2].Value
				old = []int{r.fcW, r.fcB}[st.N%2]
			}
			err := r.sgd.Update(slot)
			h = h.Str(fmt.Sprint(err != nil))
			if err == nil {
				if *slot == r.pool.T[old] {
					r.fail("update-in-place", "%s: Update left the same tensor object behind the pointer", where)
				}
				r.pool.T[st.Out] = *slot
				r.order = append(r.order, st.Out)
				r.operands[st.Out] = []int{old}
				if st.Op == "fcupdate" {
					if st.N%2 == 0 {
						r.fcW = st.Out
					} else {
						r.fcB = st.Out
					}
				}
				sim.Pause()
				h = h.U64(sim.PubFP(*slot))
				sim.Resume()
			} else if st.Op == "fcupdate" && *slot != r.pool.T[old] {
				r.fail("failed-update-replaced", "%s: a failed Update replaced the tensor behind the pointer", where)
			}
		case "fcreset":
			if r.fc == nil {
				r.discard = "malformed"
				return
			}
			id := []int{r.fcW, r.fcB}[st.N%2]
			(*r.fc.Weights()[st.N%2].Value).ResetGradContext(st.B)
			may[id] = true
		case "grad":
			// hold a reference to the gradient tensor: from now on it is an
			// existing tensor like any other (an alias of one already held is skipped)
			g := r.pool.T[st.In[0]].Gradient()
			h = h.Str(fmt.Sprint(g != nil))
			if g != nil {
				dup := false
				for _, id := range r.order {
					if r.pool.T[id] == g {
						dup = true
						break
					}
				}
				if !dup {
					r.pool.T[st.Out] = g
					r.order = append(r.order, st.Out)
				}
			}
		case "backprop":
			root := st.In[0]
			err := tensor.BackPropagate(r.pool.T[root])
			h = h.Str(fmt.Sprint(err))
			may = r.upstream(root)
			for id := range may {
				// back-propagation changes the tensors it delivers a gradient to, and
				// nothing else: an operand without gradient afterwards (an untracked
				// one) was none of its business
				if t, ok := r.pool.T[id]; ok && t.Gradient() == nil {
					delete(may, id)
				}
			}
			if r.pool.T[root].Gradient() == nil {
				// every tracked root receives a gradient: this one was untracked and
				// the call was turned down, so nothing at all may have changed
				may = map[int]bool{}
			}
			r.bpSteps = append(r.bpSteps, k)
			r.stepRoots[k] = root
		case "reset":
			r.pool.T[st.In[0]].ResetGradContext(st.B)
			may[st.In[0]] = true
		case "bad":
			// a rejected call: an error, no result, no trace on any tensor
			if badIndexOf(st.Tag) < 0 || len(st.In) != 1 {
				r.discard = "malformed"
				return
			}
			oracle, msg, errText, held := badVerdict(st.Tag, st.N, r.pool.T[st.In[0]])
			if oracle == "harness" {
				r.discard = "malformed"
				return
			}
			if oracle != "" {
				r.fail(oracle, "%s: %s", where, msg)
				return
			}
			h = h.Str(errText)
			r.held = append(r.held, heldErr{held, errText, where})
			r.fired["invalid-call/"+st.Tag]++
		default:
			res := r.pool.Apply(st)
			r.reg(k, res.Crossed)
			if res.Wrote != "" && check {
				r.fail("library-wrote-caller-slice", "%s: %s", where, res.Wrote)
				return
			}
			if _, dang := res.Err.(sim.ErrDangling); dang {
				r.discard = "dangling"
				return
			}
			switch {
			case res.IsRead:
				h = h.F64(res.Scalar).Str(fmt.Sprint(res.Bool, res.Err != nil))
				for _, d := range res.Ints {
					h = h.Int(d)
				}
			case res.Err != nil:
				h = h.Str("error")
				r.lastErr = true
			default:
				r.order = append(r.order, st.Out)
				r.operands[st.Out] = append([]int{}, st.In...)
				sim.Pause()
				h = h.U64(sim.PubFP(res.T))
				sim.Resume()
			}
		}
		r.obs = append(r.obs, h.Sum())
		if check {
			sim.Pause()
			r.invariants(before, may, where)
			sim.Resume()
			if r.viol != nil {
				return
			}
		}
		k++
	}
	if !final {
		return
	}
	if check {
		for _, he := range r.held {
			if he.err != nil && he.err.Error() != he.text {
				r.fail("rejected-call-error-changed", "%s: the error value the caller still holds read %q when it was returned and reads %q at the end of the run", he.where, he.text, he.err.Error())
				return
			}
		}
	}
	// final observation: everything
	sim.Pause()
	fh := sim.NewHash()
	for _, id := range r.order {
		fh = fh.Int(id).U64(sim.PubFP(r.pool.T[id]))
	}
	if r.fc != nil {
		ws := r.fc.Weights()
		fh = fh.U64(sim.PubFP(*ws[0].Value)).U64(sim.PubFP(*ws[1].Value))
	}
	r.obs = append(r.obs, fh.Sum())
	sim.Resume()
}

func withoutScribbles(sc *sim.Scenario) *sim.Scenario {
	c := sc.Clone()
	var keep []sim.Step
	for _, st := range c.Steps {
		if st.Op != "scribble" {
			keep = append(keep, st)
		}
	}
	c.Steps = keep
	return c
}

// insertScribble returns base with a scribble of crossing k after non-scribble step j.
func insertScribble(base *sim.Scenario, k, j int) *sim.Scenario {
	v := base.Clone()
	v.Cfg["enum"] = 0
	st := sim.Step{Op: "scribble", N: k, Out: -1, C: 0, Tag: "x"}
	var steps []sim.Step
	idx := 0
	done := false
	for _, s := range v.Steps {
		steps = append(steps, s)
		if s.Op != "scribble" {
			if idx == j && !done {
				steps = append(steps, st)
				done = true
			}
			idx++
		}
	}
	if !done {
		steps = append(steps, st)
	}
	v.Steps = steps
	return v
}

func safeExec10(sc *sim.Scenario, check bool) (r *run10) {
	r = newRun10(sc)
	if r.discard != "" {
		return r
	}
	defer func() {
		if p := recover(); p != nil {
			if hp, ok := p.(sim.HarnessPanic); ok {
				panic(hp)
			}
			if s, ok := p.(string); ok && len(s) >= 8 && s[:8] == "harness:" {
				panic(p)
			}
			r.fail("panic", "library panicked: %v", p)
		}
	}()
	r.exec(sc, check)
	return r
}

func compareObs(base, v *run10) (int, bool) {
	n := len(base.obs)
	if len(v.obs) < n {
		n = len(v.obs)
	}
	for i := 0; i < n; i++ {
		if base.obs[i] != v.obs[i] {
			return i, false
		}
	}
	if len(base.obs) != len(v.obs) {
		return n, false
	}
	return 0, true
}

func (prop c10) Execute(sc *sim.Scenario) *sim.Outcome {
	out := sim.NewOutcome()
	start := sim.Now()
	lh := sim.NewHash()
	sig := sim.NewHash()
	fin := func() *sim.Outcome { return finish(out, lh, sig, start) }
	for _, st := range sc.Steps {
		if st.Op == "scribble" {
			continue
		}
		sig = sig.Str(st.Op).Str(st.Tag).Int(len(st.I)).Int(len(st.R)).Int(len(st.F))
		out.Probes["op/"+st.Op]++
		for _, id := range st.In {
			sig = sig.Int(id)
		}
	}
	baseSc := withoutScribbles(sc)
	base := safeExec10(baseSc, true)
	if base.discard != "" {
		out.Discard = base.discard
		return out
	}
	for _, o := range base.obs {
		lh = lh.U64(o)
	}
	for k, n := range base.fired {
		out.Faults[k] += n
	}
	if base.viol != nil {
		out.Violation = base.viol
		return fin()
	}
	runVariant := func(vsc *sim.Scenario, desc string) bool {
		v := safeExec10(vsc, true)
		if v.discard != "" {
			return true
		}
		for k, n := range v.fired {
			out.Faults[k] += n
		}
		if v.viol != nil {
			out.Violation = &sim.Violation{Oracle: "scribbled-" + v.viol.Oracle, Msg: desc + ": " + v.viol.Msg}
			out.Concrete = vsc
			return false
		}
		if at, ok := compareObs(base, v); !ok {
			what := "the final state of all tensors"
			if at < len(baseSc.Steps) {
				what = fmt.Sprintf("step %d (%s)", at, baseSc.Steps[at].Op)
			}
			out.Fail("twin-diverged", "%s: the run with the caller overwriting that slice first differs from the twin at %s", desc, what)
			out.Concrete = vsc
			return false
		}
		return true
	}
	hasScribble := len(baseSc.Steps) != len(sc.Steps)
	if hasScribble {
		if !runVariant(sc, "explicit scribble") {
			return fin()
		}
	}
	mode := sc.CfgInt("enum")
	if mode > 0 {
		nsteps := len(baseSc.Steps)
		between := false
		// quick tier: at most ~150 placements per program (every stride-th one,
		// deterministically) so that one large program cannot eat the budget
		stride, count := 1, 0
		// every placement re-executes the program: long programs get fewer of them
		capQ, capT := 150, 1500
		if nsteps > 40 {
			capQ, capT = 6000/nsteps+1, 60000/nsteps+1
		}
		if mode == 1 {
			est := len(base.cross) * (2 + len(base.bpSteps))
			if est > capQ {
				stride = (est + capQ - 1) / capQ
			}
		} else {
			// thorough: every later instant, but at most ~1500 placements per program
			est := len(base.cross) * nsteps / 2
			if est > capT {
				stride = (est + capT - 1) / capT
			}
		}
		for k, cr := range base.cross {
			// instants
			var instants []int
			if mode >= 2 {
				for j := cr.step; j < nsteps; j++ {
					instants = append(instants, j)
				}
			} else {
				instants = append(instants, cr.step)
				for _, b := range base.bpSteps {
					if b-1 > cr.step {
						instants = append(instants, b-1)
					}
				}
				if nsteps-1 > cr.step {
					instants = append(instants, nsteps-1)
				}
			}
			seen := map[int]bool{}
			for _, j := range instants {
				if seen[j] {
					continue
				}
				seen[j] = true
				count++
				if stride > 1 && count%stride != 0 {
					out.Probes["placements-skipped-by-quick-cap"]++
					continue
				}
				// probe: is there a later backprop whose graph contains this call's result?
				if out0 := baseSc.Steps[cr.step].Out; out0 >= 0 {
					for _, b := range base.bpSteps {
						if b > j && base.upstream(base.stepRoots[b])[out0] {
							between = true
							out.Probes["scribble-between-forward-and-backprop"]++
							break
						}
					}
				}
				out.Probes["enumerated-scribble-placements"]++
				desc := fmt.Sprintf("slice #%d (%s passed at step %d, %s) scribbled after step %d", k, cr.kind, cr.step, baseSc.Steps[cr.step].Op, j)
				if !runVariant(insertScribble(baseSc, k, j), desc) {
					return fin()
				}
			}
		}
		out.Nontrivial = between
	} else {
		out.Nontrivial = hasScribble
	}
	return fin()
}

/* ---------- generation (by live execution) ---------- */

func (c10) Generate(r *sim.Rand, tier string) *sim.Scenario {
	sc := &sim.Scenario{Cfg: map[string]float64{}, Data: map[string][]float64{}}
	sc.Cfg["enum"] = 1
	maxSteps := 18
	if tier == "thorough" {
		sc.Cfg["enum"] = 2
		maxSteps = 25
	}
	sc.Cfg["rngseed"] = float64(r.Intn(1 << 30))
	ids := &idAlloc{}
	useFC := r.Bool(0.4)
	D, O := r.Range(1, 3), r.Range(1, 3)
	if useFC {
		sc.Cfg["fcin"], sc.Cfg["fcout"] = float64(D), float64(O)
		sc.Data["fcW"], sc.Data["fcB"] = randData(r, O, false), randData(r, O, false)
	}
	live := newRun10(sc)
	sim.SeedLibraryRNG(uint64(sc.Cfg["rngseed"]))
	o := genOpts{MaxElems: 36, MaxRank: 4, MaxDim: 3, Comparison: false, PSynth: 0.3, PTracked: 0.8,
		Weights: map[string]int{"reshape": 4, "broadcast": 3, "slice": 5, "patch": 5, "concat": 4, "unary": 1, "scale": 2, "pow": 1, "shape": 2, "along": 2, "arith": 3, "elmm": 1, "dot": 1, "matmul": 1}}
	if r.Bool(0.4) {
		// masks: untracked results that share nothing with each other; resets
		// below may hit them like any other tensor
		o.Comparison = true
		o.Weights["cmp"] = 3
	}
	switch r.Intn(8) { // size swarm
	case 0:
		o.MaxDim, o.MaxElems = 17, 90
	case 1:
		o.MaxRank = 6
	}
	shapes := map[int][]int{}
	var order []int
	badCalls := r.Bool(0.5) // fault invalid-call: rejected calls between the valid ones
	if r.Bool(0.3) {
		sc.Cfg["reusebuf"] = 1 // the caller keeps one []int per length and passes it to every call
	}
	add := func(st sim.Step) bool {
		// execute live, append on success
		tmp := &sim.Scenario{Cfg: sc.Cfg, Data: sc.Data, Steps: []sim.Step{st}}
		before := len(live.order)
		live.lastErr = false
		func() {
			defer func() {
				if p := recover(); p != nil {
					if _, ok := p.(sim.HarnessPanic); ok {
						panic(p)
					}
					live.discard = "panic"
				}
			}()
			liveExecOne(live, tmp.Steps[0])
		}()
		if live.discard != "" || live.lastErr {
			live.discard = ""
			return false
		}
		sc.Steps = append(sc.Steps, st)
		for _, id := range live.order[before:] {
			shapes[id] = live.pool.T[id].Shape()
			order = append(order, id)
		}
		return true
	}
	avs := func() []avail {
		var a []avail
		for _, id := range order {
			a = append(a, avail{id, shapes[id]})
		}
		return a
	}
	newLeaf := func() {
		shape := randShape(r, 4, minInt(o.MaxDim, 9), 27+o.MaxDim)
		st := sim.Step{Out: ids.New(), B: r.Bool(0.8), I: cpI(shape)}
		switch r.Intn(8) {
		case 0:
			st.Op, st.F = "full", []float64{r.Value(false)}
		case 1:
			st.Op = "zeros"
		case 2:
			st.Op = "ones"
		case 3:
			st.Op, st.F = "randu", []float64{-1, 1}
		case 4:
			st.Op, st.F = "randn", []float64{0, 1}
		case 5:
			st.Op, st.N = "init", r.Intn(len(c10InitKinds))
		default:
			st.Op, st.F = "tensorof", randData(r, sim.NElems(shape), false)
		}
		add(st)
	}
	newLeaf()
	n := r.Range(4, maxSteps)
	if r.Bool(0.004) {
		// a long-lived leaf: dozens of graphs are built on it and back-propagated
		// one after the other while the caller keeps the gradient tensors it pulled
		// in between (existing tensors like any other: they must never change)
		shape := randShape(r, 2, 3, 6)
		lf := sim.Step{Op: "tensorof", Out: ids.New(), B: true, I: cpI(shape), F: randData(r, sim.NElems(shape), false)}
		if add(lf) {
			// all graphs first (a back-propagated leaf is spent: later results would
			// be untracked), then one back-propagation after the other
			var ys []int
			for k, rounds := 0, r.Range(34, 90); k < rounds; k++ {
				y := sim.Step{Op: "scale", In: []int{lf.Out}, F: []float64{[]float64{2, -1, 0.5, 3}[k%4]}, Out: ids.New()}
				if !add(y) {
					break
				}
				ys = append(ys, y.Out)
			}
			for k, y := range ys {
				add(sim.Step{Op: "backprop", In: []int{y}, Out: -1})
				if r.Bool(0.15) || k == len(ys)-2 {
					add(sim.Step{Op: "grad", In: []int{lf.Out}, Out: ids.New()})
				}
			}
		}
		n = r.Range(2, 8)
	}
	for k, fails := 0, 0; k < n && fails < 40; {
		x := r.Intn(100)
		switch {
		case x < 10:
			newLeaf()
			k++
		case x < 60:
			av := avs()
			xa := av[r.Intn(len(av))]
			if r.Bool(0.6) { // prefer recent results: longer chains
				xa = av[len(av)-1-r.Intn(minInt(3, len(av)))]
			}
			steps := propose(r, ids, av, xa, &o)
			ok := len(steps) > 0
			nb, no, nl := len(sc.Steps), len(order), len(live.order)
			for _, st := range steps {
				if ok && !add(st) {
					ok = false
				}
			}
			if !ok {
				// roll back partner leaves that were already added
				for _, id := range live.order[nl:] {
					delete(live.pool.T, id)
				}
				live.order = live.order[:nl]
				order = order[:no]
				sc.Steps = sc.Steps[:nb]
				fails++
				continue
			}
			k++
		case x < 63:
			// activation layers take their input as a variadic (spread) tensor list
			id := order[len(order)-1-r.Intn(minInt(4, len(order)))]
			add(sim.Step{Op: "act", N: r.Intn(6), In: []int{id}, Out: ids.New()})
			k++
		case x < 68:
			id := order[r.Intn(len(order))]
			shp := shapes[id]
			switch r.Intn(3) {
			case 0:
				idx := make([]int, len(shp))
				for i := range idx {
					idx[i] = r.Intn(shp[i])
				}
				add(sim.Step{Op: "at", In: []int{id}, I: idx, Out: -1})
			case 1:
				add(sim.Step{Op: "shape", In: []int{id}, Out: -1})
			default:
				add(sim.Step{Op: sim.ScalarReads[r.Intn(len(sim.ScalarReads))], In: []int{id}, Out: -1})
			}
			k++
		case x < 75 && useFC:
			batch := r.Range(1, 3)
			lf := sim.Step{Op: "tensorof", Out: ids.New(), B: r.Bool(0.5), I: []int{batch, D}, F: randData(r, batch*D, false)}
			if add(lf) {
				add(sim.Step{Op: "fcforward", In: []int{lf.Out}, Out: ids.New()})
			}
			k++
		case x < 78:
			id := order[r.Intn(len(order))]
			add(sim.Step{Op: "grad", In: []int{id}, Out: ids.New()})
			k++
		case x < 88:
			// back-propagate a recent result
			id := order[len(order)-1-r.Intn(minInt(4, len(order)))]
			add(sim.Step{Op: "backprop", In: []int{id}, Out: -1})
			k++
		case x < 94:
			if useFC && r.Bool(0.5) {
				add(sim.Step{Op: "fcupdate", N: r.Intn(2), Out: ids.New()})
				if r.Bool(0.7) {
					add(sim.Step{Op: "fcreset", N: r.Intn(2), B: true, Out: -1})
				}
			} else {
				id := order[r.Intn(len(order))]
				add(sim.Step{Op: "update", In: []int{id}, Out: ids.New()})
			}
			k++
		case x < 97 && badCalls:
			id := order[len(order)-1-r.Intn(minInt(6, len(order)))]
			tag, n := pickBad(r, shapes[id])
			add(sim.Step{Op: "bad", In: []int{id}, Tag: tag, N: n, Out: -1})
			k++
		default:
			id := order[r.Intn(len(order))]
			add(sim.Step{Op: "reset", In: []int{id}, B: r.Bool(0.7), Out: -1})
			k++
		}
	}
	// always end with a back-propagation of the newest tracked-looking result
	add(sim.Step{Op: "backprop", In: []int{order[len(order)-1]}, Out: -1})
	return sc
}

// liveExecOne executes one step on the generator's live run (no checks).
func liveExecOne(r *run10, st sim.Step) {
	one := &sim.Scenario{Cfg: map[string]float64{}, Steps: []sim.Step{st}}
	// reuse exec's switch without reseeding: temporarily emulate
	execSteps(r, one.Steps)
}

func execSteps(r *run10, steps []sim.Step) {
	saveObs := r.obs
	sc := &sim.Scenario{Cfg: map[string]float64{"rngseed": -1}, Steps: steps}
	r.execNoSeed(sc)
	r.obs = saveObs
}

func (c10) Shrinks(sc *sim.Scenario) []*sim.Scenario {
	// the scribble refers to a crossing index, which shifts when steps are
	// dropped: try dropping steps after the scribble's source first, and keep
	// candidates only if they still fail (the driver checks that).
	var out []*sim.Scenario
	for i := len(sc.Steps) - 1; i >= 0; i-- {
		if sc.Steps[i].Op == "scribble" {
			continue
		}
		out = append(out, sim.DropStep(sc, i))
	}
	// dropping an earlier slice-passing step shifts the crossing index down
	for i := len(sc.Steps) - 1; i >= 0; i-- {
		if sc.Steps[i].Op == "scribble" {
			continue
		}
		for d := 1; d <= 6; d++ {
			c := sim.DropStep(sc, i)
			ok := false
			for k := range c.Steps {
				if c.Steps[k].Op == "scribble" && c.Steps[k].N-d >= 0 {
					c.Steps[k].N -= d
					ok = true
				}
			}
			if ok {
				out = append(out, c)
			}
		}
	}
	return out
}
