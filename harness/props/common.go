// Package props holds one generator + executor + oracle per claimed property.
package props

import (
	"github.com/sahandsafizadeh/qeep/tensor"

	"qverif/sim"
)

var notApplicableFaults = []string{
	"message loss / duplication / reordering / partition (no network or messages in qeep)",
	"crash-restart with durable state (nothing is persisted)",
	"clock skew / jumps, timers (qeep reads no clock)",
	"disk errors, torn / short / lost writes, full disk (no I/O)",
	"failing allocations or system calls (no seam in Go; qeep makes no syscalls)",
}

func baseExtra() map[string]any {
	return map[string]any{
		"components_real":            []string{"all of qeep (tensor, gradtrack, cputensor, validator, layers, activations, losses, metrics, optimizers, initializers)", "gonum stat/distuv", "golang.org/x/exp/rand global source"},
		"components_stubbed":         []string{},
		"fault_kinds_not_applicable": notApplicableFaults,
		"simulated_time_unit":        "yield points passed (AST-inserted at every function / literal entry and loop body of a scratch copy of /repo)",
		"instrumented":               sim.Instrumented(),
	}
}

func vec(vals []float64, tracked bool) tensor.Tensor {
	return sim.Leaf([]int{len(vals)}, vals, tracked)
}

func cpF(a []float64) []float64 {
	b := make([]float64, len(a))
	copy(b, a)
	return b
}
