package props

import (
	"qverif/sim"
)

// Shape-aware operation proposer shared by the tensor-program properties.
// It only proposes; validity is always confirmed by executing the real
// forward operation while generating (the recorded scenario is explicit).

type avail struct {
	ID    int
	Shape []int
}

type genOpts struct {
	MaxElems   int
	MaxRank    int
	MaxDim     int
	Comparison bool    // allow comparison ops
	Linear     bool    // only linear, non-expanding ops
	NoExpand   bool    // no operation expands an operand by broadcasting
	PSynth     float64 // probability of synthesising a partner leaf instead of reusing one
	PTracked   float64 // tracking probability for synthesised leaves
	Client     int
	Weights    map[string]int // optional op-class weights
}

type idAlloc struct{ next int }

func (a *idAlloc) New() int { a.next++; return a.next - 1 }

func cpI(a []int) []int { b := make([]int, len(a)); copy(b, a); return b }

func randShape(r *sim.Rand, maxRank, maxDim, maxElems int) []int {
	for {
		rank := r.Range(0, maxRank)
		s := make([]int, rank)
		for i := range s {
			s[i] = r.Range(1, maxDim)
		}
		if sim.NElems(s) <= maxElems {
			return s
		}
	}
}

func randData(r *sim.Rand, n int, specials bool) []float64 {
	d := make([]float64, n)
	for i := range d {
		d[i] = r.Value(specials)
	}
	return d
}

func leafStep(r *sim.Rand, ids *idAlloc, client int, shape []int, tracked bool, specials bool) sim.Step {
	if r.Bool(0.06) {
		// a leaf from the library's constant constructors, with values from a small
		// set: equal requests recur within a run and must still be separate tensors
		v := []float64{1, 1, 0, 0.5, 2, -1}[r.Intn(6)]
		switch {
		case v == 1 && r.Bool(0.5):
			return sim.Step{C: client, Op: "ones", Out: ids.New(), I: cpI(shape), B: tracked}
		case v == 0 && r.Bool(0.5):
			return sim.Step{C: client, Op: "zeros", Out: ids.New(), I: cpI(shape), B: tracked}
		}
		return sim.Step{C: client, Op: "full", Out: ids.New(), I: cpI(shape), F: []float64{v}, B: tracked}
	}
	return sim.Step{C: client, Op: "tensorof", Out: ids.New(), I: cpI(shape), F: randData(r, sim.NElems(shape), specials), B: tracked}
}

func bcastCompatible(a, b []int) bool {
	i, j := len(a)-1, len(b)-1
	for i >= 0 && j >= 0 {
		if a[i] != b[j] && a[i] != 1 && b[j] != 1 {
			return false
		}
		i--
		j--
	}
	return true
}

func bcastShape(a, b []int) []int {
	n := len(a)
	if len(b) > n {
		n = len(b)
	}
	out := make([]int, n)
	for k := 0; k < n; k++ {
		da, db := 1, 1
		if i := len(a) - 1 - k; i >= 0 {
			da = a[i]
		}
		if j := len(b) - 1 - k; j >= 0 {
			db = b[j]
		}
		if da > db {
			out[n-1-k] = da
		} else {
			out[n-1-k] = db
		}
	}
	return out
}

// partnerShape derives a broadcast-compatible partner shape from x's shape.
func partnerShape(r *sim.Rand, x []int, o *genOpts) []int {
	if o.Linear || o.NoExpand || r.Bool(0.5) {
		return cpI(x)
	}
	// drop some leading dims, set some dims to 1, or add leading dims
	s := cpI(x)
	switch r.Intn(3) {
	case 0:
		if len(s) > 0 {
			s = s[r.Intn(len(s)+1):]
		}
	case 1:
		for i := range s {
			if r.Bool(0.4) {
				s[i] = 1
			}
		}
	case 2:
		if len(s) < o.MaxRank {
			s = append([]int{r.Range(1, 3)}, s...)
		}
	}
	if sim.NElems(bcastShape(s, x)) > o.MaxElems {
		return cpI(x)
	}
	return cpI(s)
}

func pickWhere(r *sim.Rand, av []avail, pred func([]int) bool) (avail, bool) {
	var c []avail
	for _, a := range av {
		if pred(a.Shape) {
			c = append(c, a)
		}
	}
	if len(c) == 0 {
		return avail{}, false
	}
	return c[r.Intn(len(c))], true
}

var scaleFactors = []float64{0.25, -0.25, 0.5, -0.5, 1, -1, 2, -2, 3, 5, 7, 0.3, -1.7, 0}
var linScaleFactors = []float64{0.25, -0.25, 0.5, -0.5, 1, -1, 2, -2}
var powExps = []float64{2, 3, 1, 0, -1, -2, 0.5, 1.5}

var opClasses = []string{"unary", "scale", "pow", "shape", "along", "reshape", "broadcast", "slice", "patch", "concat", "arith", "elmm", "dot", "matmul", "cmp"}

// propose returns the steps of one operation on x (possibly preceded by a
// synthesised partner leaf); the last step is the operation. nil: nothing fits.
func propose(r *sim.Rand, ids *idAlloc, av []avail, x avail, o *genOpts) []sim.Step {
	rank := len(x.Shape)
	var classes []string
	for _, c := range opClasses {
		if o.Linear {
			switch c {
			case "unary", "pow", "broadcast", "elmm", "dot", "matmul", "cmp":
				continue
			}
		}
		if c == "cmp" && !o.Comparison {
			continue
		}
		if c == "broadcast" && o.NoExpand {
			continue
		}
		w := 1
		if o.Weights != nil {
			if ww, ok := o.Weights[c]; ok {
				w = ww
			}
		}
		for k := 0; k < w; k++ {
			classes = append(classes, c)
		}
	}
	class := classes[r.Intn(len(classes))]
	st := sim.Step{C: o.Client, In: []int{x.ID}}
	partner := func(shape []int, pred func([]int) bool) (int, []sim.Step) {
		if r.Bool(0.1) && pred(x.Shape) {
			// the same object in two roles of one call (x op x, x twice in a Concat
			// list, x patched into itself)
			return x.ID, nil
		}
		if !r.Bool(o.PSynth) {
			if a, ok := pickWhere(r, av, pred); ok {
				return a.ID, nil
			}
		}
		if len(shape) > 4 {
			return -1, nil // cannot synthesise (TensorOf stops at rank 4): the candidate is rejected when tried
		}
		l := leafStep(r, ids, o.Client, shape, r.Bool(o.PTracked), false)
		return l.Out, []sim.Step{l}
	}
	switch class {
	case "unary":
		ops := []string{"exp", "log", "sin", "cos", "tan", "sinh", "cosh", "tanh"}
		st.Op = ops[r.Intn(len(ops))]
	case "scale":
		st.Op = "scale"
		if o.Linear {
			st.F = []float64{linScaleFactors[r.Intn(len(linScaleFactors))]}
		} else {
			st.F = []float64{scaleFactors[r.Intn(len(scaleFactors))]}
		}
	case "pow":
		st.Op = "pow"
		st.F = []float64{powExps[r.Intn(len(powExps))]}
	case "shape":
		var opts []string
		if rank >= 2 {
			opts = append(opts, "transpose")
		}
		if rank < o.MaxRank {
			opts = append(opts, "unsqueeze")
		}
		for _, d := range x.Shape {
			if d == 1 {
				opts = append(opts, "squeeze")
				break
			}
		}
		if rank >= 1 {
			opts = append(opts, "flatten")
		}
		if len(opts) == 0 {
			return nil
		}
		st.Op = opts[r.Intn(len(opts))]
		switch st.Op {
		case "unsqueeze":
			st.I = []int{r.Range(0, rank)}
		case "squeeze":
			var ones []int
			for i, d := range x.Shape {
				if d == 1 {
					ones = append(ones, i)
				}
			}
			st.I = []int{ones[r.Intn(len(ones))]}
		case "flatten":
			st.I = []int{r.Intn(rank)}
		}
	case "along":
		if rank < 1 {
			return nil
		}
		ops := []string{"sumalong", "maxalong", "minalong", "avgalong", "varalong", "stdalong", "meanalong"}
		if o.Linear {
			ops = []string{"sumalong", "avgalong", "meanalong"}
		}
		st.Op = ops[r.Intn(len(ops))]
		st.I = []int{r.Intn(rank)}
	case "reshape":
		n := sim.NElems(x.Shape)
		st.Op = "reshape"
		st.I = factorShape(r, n, o.MaxRank)
		if r.Bool(0.08) {
			st.I = cpI(x.Shape) // degenerate form: the tensor's own shape
		}
	case "broadcast":
		s := cpI(x.Shape)
		own := r.Bool(0.08) // degenerate form: the tensor's own shape
		for i := range s {
			if !own && s[i] == 1 && r.Bool(0.6) {
				s[i] = r.Range(2, 3)
			}
		}
		for !own && len(s) < o.MaxRank && r.Bool(0.4) {
			s = append([]int{r.Range(1, 3)}, s...)
		}
		if sim.NElems(s) > o.MaxElems {
			return nil
		}
		st.Op = "broadcast"
		st.I = s
	case "slice":
		if rank < 1 {
			return nil
		}
		st.Op = "slice"
		nidx := r.Range(0, rank)
		whole := r.Bool(0.06) // degenerate form: everything, by explicit full ranges or fetch-all
		for i := 0; i < nidx; i++ {
			d := x.Shape[i]
			if whole && r.Bool(0.5) {
				st.R = append(st.R, [2]int{0, d})
				continue
			}
			if whole || r.Bool(0.3) {
				st.R = append(st.R, [2]int{0, 0})
				continue
			}
			from := r.Intn(d)
			to := r.Range(from+1, d)
			st.R = append(st.R, [2]int{from, to})
		}
	case "patch":
		if rank < 1 {
			return nil
		}
		// x is the target; source has the same rank and no larger dims
		ss := make([]int, rank)
		for i, d := range x.Shape {
			ss[i] = r.Range(1, d)
		}
		pid, pre := partner(ss, func(s []int) bool {
			if len(s) != rank {
				return false
			}
			for i := range s {
				if s[i] > x.Shape[i] {
					return false
				}
			}
			return true
		})
		// need the actual source shape
		src := ss
		if pre == nil {
			for _, a := range av {
				if a.ID == pid {
					src = a.Shape
				}
			}
		}
		st.Op = "patch"
		st.In = []int{x.ID, pid}
		nidx := r.Range(0, rank)
		for i := 0; i < nidx; i++ {
			if r.Bool(0.25) {
				st.R = append(st.R, [2]int{0, 0})
				continue
			}
			from := r.Range(0, x.Shape[i]-src[i])
			st.R = append(st.R, [2]int{from, from + src[i]})
		}
		if r.Bool(0.3) { // source as the interesting operand: swap roles is not possible; keep
		}
		return append(pre, finishStep(st, ids))
	case "concat":
		if rank < 1 {
			return nil
		}
		dim := r.Intn(rank)
		n := r.Range(2, 3)
		if r.Bool(0.1) {
			n = r.Range(4, 9)
		}
		if r.Bool(0.05) {
			n = 1 // degenerate form: a list of one
		}
		st.Op = "concat"
		st.I = []int{dim}
		var pre []sim.Step
		st.In = []int{x.ID}
		total := x.Shape[dim]
		for k := 1; k < n; k++ {
			ps := cpI(x.Shape)
			ps[dim] = r.Range(1, o.MaxDim)
			pid, p := partner(ps, func(s []int) bool {
				if len(s) != rank {
					return false
				}
				for i := range s {
					if i != dim && s[i] != x.Shape[i] {
						return false
					}
				}
				return true
			})
			pre = append(pre, p...)
			st.In = append(st.In, pid)
			total += ps[dim]
		}
		if r.Bool(0.5) { // x not always first
			j := r.Intn(len(st.In))
			st.In[0], st.In[j] = st.In[j], st.In[0]
		}
		return append(pre, finishStep(st, ids))
	case "arith":
		ops := []string{"add", "sub", "mul", "div"}
		if o.Linear {
			ops = []string{"add", "sub"}
		}
		st.Op = ops[r.Intn(len(ops))]
		ps := partnerShape(r, x.Shape, o)
		pid, pre := partner(ps, func(s []int) bool {
			if o.Linear || o.NoExpand {
				return sim.ShapeEq(s, x.Shape)
			}
			return bcastCompatible(s, x.Shape) && sim.NElems(bcastShape(s, x.Shape)) <= o.MaxElems
		})
		if r.Bool(0.5) {
			st.In = []int{x.ID, pid}
		} else {
			st.In = []int{pid, x.ID}
		}
		return append(pre, finishStep(st, ids))
	case "elmm", "cmp":
		if class == "elmm" {
			st.Op = []string{"elmax", "elmin"}[r.Intn(2)]
		} else {
			st.Op = sim.Comparisons[r.Intn(len(sim.Comparisons))]
		}
		pid, pre := partner(x.Shape, func(s []int) bool { return sim.ShapeEq(s, x.Shape) })
		if r.Bool(0.5) {
			st.In = []int{x.ID, pid}
		} else {
			st.In = []int{pid, x.ID}
		}
		return append(pre, finishStep(st, ids))
	case "dot":
		if rank < 1 {
			return nil
		}
		st.Op = "dot"
		ps := partnerShape(r, x.Shape, o)
		if len(ps) == 0 {
			ps = []int{x.Shape[rank-1]}
		}
		ps[len(ps)-1] = x.Shape[rank-1]
		pid, pre := partner(ps, func(s []int) bool {
			if o.NoExpand {
				return sim.ShapeEq(s, x.Shape)
			}
			return len(s) >= 1 && s[len(s)-1] == x.Shape[rank-1] && bcastCompatible(s, x.Shape) &&
				sim.NElems(bcastShape(s, x.Shape)) <= o.MaxElems
		})
		if r.Bool(0.5) {
			st.In = []int{x.ID, pid}
		} else {
			st.In = []int{pid, x.ID}
		}
		return append(pre, finishStep(st, ids))
	case "matmul":
		if rank < 2 {
			return nil
		}
		st.Op = "matmul"
		xFirst := r.Bool(0.5)
		m, n := x.Shape[rank-2], x.Shape[rank-1]
		k := r.Range(1, o.MaxDim)
		batch := partnerShape(r, x.Shape[:rank-2], o)
		var ps []int
		if xFirst {
			ps = append(cpI(batch), n, k)
		} else {
			ps = append(cpI(batch), k, m)
		}
		if len(ps) > o.MaxRank+1 {
			return nil
		}
		pid, pre := partner(ps, func(s []int) bool {
			if len(s) < 2 || !bcastCompatible(s[:len(s)-2], x.Shape[:rank-2]) {
				return false
			}
			if o.NoExpand && !sim.ShapeEq(s[:len(s)-2], x.Shape[:rank-2]) {
				return false
			}
			if xFirst {
				return s[len(s)-2] == n
			}
			return s[len(s)-1] == m
		})
		if xFirst {
			st.In = []int{x.ID, pid}
		} else {
			st.In = []int{pid, x.ID}
		}
		return append(pre, finishStep(st, ids))
	}
	return []sim.Step{finishStep(st, ids)}
}

func finishStep(st sim.Step, ids *idAlloc) sim.Step {
	st.Out = ids.New()
	return st
}

func factorShape(r *sim.Rand, n int, maxRank int) []int {
	rank := r.Range(0, maxRank)
	if rank == 0 {
		if n == 1 {
			return []int{}
		}
		rank = 1
	}
	s := make([]int, rank)
	rem := n
	for i := 0; i < rank-1; i++ {
		// pick a divisor of rem
		var divs []int
		for d := 1; d <= rem; d++ {
			if rem%d == 0 {
				divs = append(divs, d)
			}
		}
		s[i] = divs[r.Intn(len(divs))]
		rem /= s[i]
	}
	s[rank-1] = rem
	return s
}
