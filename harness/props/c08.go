package props

import (
	"fmt"
	"math"
	"sort"

	"github.com/sahandsafizadeh/qeep/tensor"

	"qverif/sim"
)

// C08 — gradient tracking propagates, isolates and retires as specified.
//
// Steps over one shared pool, issued by 1-4 clients: creators, every tensor
// operation (also comparisons), "backprop", "reset" (B = requested tracking),
// "grad" (pull t.Gradient() into the pool under Out), and invalid-call faults
// op "bad" (Tag: backprop-nil | nil-operand | shape-mismatch; N = inner op).
type c08 struct{}

func init() { sim.Register(c08{}) }

func (c08) ID() string    { return "C08" }
func (c08) Level() string { return "exploration" }
func (c08) Rule() string {
	return "histories of creation / operations (unary, binary, n-ary, comparison, reduction, shape) / BackPropagate / ResetGradContext / Gradient() pulls / invalid calls by 1-4 clients over one shared tensor pool, interleaved at call granularity; every tracking decision comes from a 3-field reference state machine per tensor (tracked, spent, hasGrad + operand links) that also enforces the property's two provisos when generating; checked after every step on every pool tensor, plus an untracked twin run (forward values bitwise equal) and a final sweep that back-propagates everything the provisos still allow. Non-trivial: a spent tensor was reused AND a reset tensor was re-tracked and back-propagated again AND two clients' steps interleaved on a shared tensor. Distinct: hash of the (client, op, operands, flag) sequence. Rare wide flavour (70-330 consumers of one tensor); rejected calls from the shared invalid-call catalogue; the final sweep is bounded to 48 roots on long histories; a tracked root must visibly receive its start gradient."
}
func (c08) Assumptions() []string {
	return []string{
		"situations the statement leaves open are not generated: an operation that mixes a tracked, unspent operand with a gradient tensor or with a comparison of spent tensors (or anything derived from those)",
		"proviso (b) is read conservatively: ResetGradContext(t) is generated only when no tensor ever computed directly from t is currently tracked and not yet back-propagated",
		"'tracked' is observable only through back-propagation: each history ends with a sweep that back-propagates every tensor proviso (a) still allows, newest first",
	}
}
func (c08) Extra() map[string]any {
	e := baseExtra()
	e["fault_kinds"] = []string{"invalid-call (BackPropagate(nil), nil operand, shape mismatch, the shared catalogue of rejected calls)", "reorder (call-granularity interleaving of clients on shared tensors)"}
	return e
}

type m08 struct {
	exists   bool
	tracked  bool
	spent    bool
	hasGrad  bool
	taint    bool // gradient tensor, comparison of spent, or derived from those
	passed   bool // a back-propagation passed through it as a non-leaf
	operands []int
	children []int
	client   int
	wasReset bool
}

type model08 struct {
	t map[int]*m08
}

func newModel08() *model08 { return &model08{t: map[int]*m08{}} }

func (m *model08) visitSet(root int) []int {
	r := m.t[root]
	if r == nil || !r.tracked {
		return nil
	}
	seen := map[int]bool{}
	var out []int
	var walk func(id int)
	walk = func(id int) {
		if seen[id] {
			return
		}
		seen[id] = true
		out = append(out, id)
		for _, o := range m.t[id].operands {
			if m.t[o] != nil && m.t[o].tracked {
				walk(o)
			}
		}
	}
	walk(root)
	sort.Ints(out)
	return out
}

// backpropAllowed: proviso (a).
func (m *model08) backpropAllowed(root int) bool {
	for _, id := range m.visitSet(root) {
		n := m.t[id]
		if len(n.operands) > 0 && n.passed {
			return false
		}
	}
	return true
}

// resetAllowed: proviso (b), conservative reading.
func (m *model08) resetAllowed(id int) bool {
	for _, c := range m.t[id].children {
		ch := m.t[c]
		if ch != nil && ch.tracked && !ch.spent {
			return false
		}
	}
	return true
}

func (m *model08) applyBackprop(root int) []int {
	v := m.visitSet(root)
	for _, id := range v {
		n := m.t[id]
		n.spent, n.hasGrad = true, true
		if len(n.operands) > 0 {
			n.passed = true
		}
	}
	return v
}

// opOutcome computes the model state of an operation result; ambiguous = the
// statement does not determine the result's tracking.
func (m *model08) opOutcome(op string, in []int) (n m08, ambiguous bool) {
	anySpent, anyTracked, anyTaint := false, false, false
	for _, id := range in {
		o := m.t[id]
		anySpent = anySpent || o.spent
		anyTracked = anyTracked || (o.tracked && !o.spent)
		anyTaint = anyTaint || o.taint
	}
	n.exists = true
	if sim.IsComparison(op) {
		n.taint = anySpent || anyTaint
		return n, false
	}
	if anySpent {
		n.spent = true
		n.taint = anyTaint
		return n, false
	}
	if anyTaint {
		if anyTracked {
			return n, true
		}
		n.taint = true
		return n, false
	}
	if anyTracked {
		n.tracked = true
		n.operands = append([]int{}, in...)
	}
	return n, false
}

/* ---------------- generation ---------------- */

func (c08) Generate(r *sim.Rand, tier string) *sim.Scenario {
	sc := &sim.Scenario{Cfg: map[string]float64{}}
	nclients := r.Range(1, 4)
	maxSteps := 40
	if tier == "thorough" {
		maxSteps = 80
	}
	if r.Bool(0.25) {
		maxSteps = maxSteps * 3 / 2 // long histories
	}
	pChain := []float64{0, 0, 0.5, 0.9}[r.Intn(4)]
	if pChain > 0.8 {
		maxSteps = maxSteps * 2
	}
	nsteps := r.Range(4, maxSteps)
	sc.Cfg["clients"] = float64(nclients)
	sc.Cfg["rngseed"] = float64(r.Intn(1 << 30))
	ids := &idAlloc{}
	shadow := sim.NewPool()
	m := newModel08()
	o := genOpts{MaxElems: 48, MaxRank: 4, MaxDim: 4, Comparison: true, PSynth: []float64{0.05, 0.15, 0.3}[r.Intn(3)], PTracked: []float64{0.5, 0.8, 1}[r.Intn(3)]}
	switch r.Intn(8) { // size swarm
	case 0:
		o.MaxDim, o.MaxElems = 18, 120
	case 1:
		o.MaxRank = 6
	}
	// swarm weights
	wCreate, wOp, wBP, wReset, wGrad, wBad := 3, 10, r.Range(1, 4), r.Range(0, 3), r.Range(0, 2), r.Range(0, 2)
	if pChain > 0.8 && r.Bool(0.7) {
		// deep graphs: no back-propagation before the final sweep, few resets
		wBP, wReset, wCreate = 0, r.Range(0, 1), 1
	}
	total := wCreate + wOp + wBP + wReset + wGrad + wBad
	var live []int // ids in pool, in creation order
	avs := func() []avail {
		var a []avail
		for _, id := range live {
			a = append(a, avail{id, shadow.T[id].Shape()})
		}
		return a
	}
	addShadow := func(st sim.Step) bool {
		sh := st
		sh.B = false
		res := shadow.Apply(sh)
		return res.Err == nil && res.T != nil
	}
	create := func(c int) {
		shape := randShape(r, 3, minInt(o.MaxDim, 9), 24+o.MaxDim)
		st := sim.Step{C: c, Out: ids.New(), B: r.Bool(o.PTracked)}
		switch r.Intn(6) {
		case 0:
			st.Op, st.I, st.F = "full", cpI(shape), []float64{r.Value(true)}
		case 1:
			st.Op, st.I = "ones", cpI(shape)
		case 2:
			st.Op, st.I = "eye", []int{r.Range(1, 4)}
		case 3:
			st.Op, st.I, st.F = "randu", cpI(shape), []float64{-1, 2}
		default:
			st.Op, st.I, st.F = "tensorof", cpI(shape), randData(r, sim.NElems(shape), true)
		}
		if !addShadow(st) {
			sim.Bug("C08 generator: creator rejected: %v", st)
		}
		sc.Steps = append(sc.Steps, st)
		m.t[st.Out] = &m08{exists: true, tracked: st.B, client: c}
		live = append(live, st.Out)
	}
	create(0)
	// explicit: one given operation on pool tensors (used by the wide flavour)
	explicit := func(c int, st sim.Step) (int, bool) {
		st.C, st.Out = c, ids.New()
		if !addShadow(st) {
			return 0, false
		}
		res, amb := m.opOutcome(st.Op, st.In)
		if amb {
			delete(shadow.T, st.Out)
			return 0, false
		}
		res.client = c
		m.t[st.Out] = &res
		for _, id := range st.In {
			m.t[id].children = append(m.t[id].children, st.Out)
		}
		live = append(live, st.Out)
		sc.Steps = append(sc.Steps, st)
		return st.Out, true
	}
	if r.Bool(0.001) {
		// big flavour: one tracked leaf of more than 16384 elements goes through
		// transpose / reduce / back-propagate / reset cycles (size-triggered code
		// paths such as per-tensor caches of large results)
		rows, cols := r.Range(128, 140), r.Range(129, 150)
		lf := sim.Step{C: 0, Op: "tensorof", Out: ids.New(), B: true, I: []int{rows, cols}, F: randData(r, rows*cols, false)}
		if addShadow(lf) {
			sc.Steps = append(sc.Steps, lf)
			m.t[lf.Out] = &m08{exists: true, tracked: true, client: 0}
			live = append(live, lf.Out)
			for cyc, ncyc := 0, r.Range(2, 3); cyc < ncyc; cyc++ {
				t1, ok := explicit(0, sim.Step{Op: "transpose", In: []int{lf.Out}})
				if !ok {
					break
				}
				s1, ok := explicit(0, sim.Step{Op: []string{"sumalong", "meanalong"}[r.Intn(2)], In: []int{t1}, I: []int{r.Intn(2)}})
				if !ok {
					break
				}
				if cyc < ncyc-1 {
					if !m.backpropAllowed(s1) {
						break
					}
					m.applyBackprop(s1)
					sc.Steps = append(sc.Steps, sim.Step{C: 0, Op: "backprop", In: []int{s1}, Out: -1})
					if !m.resetAllowed(lf.Out) {
						break
					}
					n0 := m.t[lf.Out]
					*n0 = m08{exists: true, tracked: true, children: n0.children, client: n0.client, wasReset: true}
					sc.Steps = append(sc.Steps, sim.Step{C: 0, Op: "reset", In: []int{lf.Out}, B: true, Out: -1})
				}
			}
		}
		nsteps = r.Range(0, 4)
	} else if r.Bool(0.0015) {
		// wide flavour: one intermediate with hundreds of consumers, combined by a
		// balanced tree of additions (hundreds of contexts ready at once, one
		// tensor receiving hundreds of upstream gradients); back-propagated by the
		// final sweep
		m.t[live[0]].tracked = true
		sc.Steps[0].B = true
		w := r.Range(70, 330)
		h, ok := explicit(0, sim.Step{Op: "scale", In: []int{live[0]}, F: []float64{0.5}})
		var ys []int
		for j := 0; ok && j < w; j++ {
			if y, ok2 := explicit(0, sim.Step{Op: "scale", In: []int{h}, F: []float64{[]float64{0.5, -1, 2, 0.25}[j%4]}}); ok2 {
				ys = append(ys, y)
			}
		}
		if len(ys) >= 70 && len(shadow.T[live[0]].Shape()) >= 1 && r.Bool(0.5) {
			// half of the wide histories: Concat lists of 65-130 operands, each then
			// reduced along the concat dimension
			var joined []int
			for len(ys) > 0 {
				k := r.Range(65, 130)
				if k > len(ys) || len(ys)-k < 20 {
					k = len(ys)
				}
				cat, ok2 := explicit(0, sim.Step{Op: "concat", In: append([]int{}, ys[:k]...), I: []int{0}})
				ys = ys[k:]
				if !ok2 {
					break
				}
				if red, ok3 := explicit(0, sim.Step{Op: "sumalong", In: []int{cat}, I: []int{0}}); ok3 {
					joined = append(joined, red)
				}
			}
			ys = joined
		}
		for len(ys) > 1 {
			var next []int
			for i := 0; i+1 < len(ys); i += 2 {
				if y, ok2 := explicit(0, sim.Step{Op: "add", In: []int{ys[i], ys[i+1]}}); ok2 {
					next = append(next, y)
				}
			}
			if len(ys)%2 == 1 {
				next = append(next, ys[len(ys)-1])
			}
			if len(next) == 0 || len(next) >= len(ys) {
				break
			}
			ys = next
		}
		nsteps = r.Range(0, 6)
		wBP, wGrad = 0, 0
		total = wCreate + wOp + wBP + wReset + wGrad + wBad
	}
	// every step fingerprints every live tensor: bound the work of one run by the
	// number of elements read (large or very many tensors end the history early)
	cost := 0
	for k := 0; k < nsteps; k++ {
		le := 0
		for _, id := range live {
			le += sim.NElems(shadow.T[id].Shape())
		}
		cost += le
		if cost > 20000000 || le > 400000 {
			break
		}
		c := r.Intn(nclients)
		x := r.Intn(total)
		switch {
		case x < wCreate:
			create(c)
		case x < wCreate+wOp:
			av := avs()
			o.Client = c
			// prefer recent tensors and other clients' tensors alike; in chain
			// mode mostly the newest one (deep graphs)
			xa := av[r.Intn(len(av))]
			if r.Bool(pChain) {
				xa = av[len(av)-1]
			}
			steps := propose(r, ids, av, xa, &o)
			if len(steps) == 0 {
				continue
			}
			ok := true
			var added []int
			for _, st := range steps {
				if !addShadow(st) {
					ok = false
					break
				}
				added = append(added, st.Out)
			}
			last := steps[len(steps)-1]
			var res m08
			if ok {
				// partner leaves first so the model knows them
				for _, st := range steps[:len(steps)-1] {
					m.t[st.Out] = &m08{exists: true, tracked: st.B, client: c}
				}
				var amb bool
				res, amb = m.opOutcome(last.Op, last.In)
				if amb {
					ok = false
					for _, st := range steps[:len(steps)-1] {
						delete(m.t, st.Out)
					}
				}
			}
			if !ok {
				for _, id := range added {
					delete(shadow.T, id)
				}
				continue
			}
			for _, st := range steps[:len(steps)-1] {
				live = append(live, st.Out)
			}
			res.client = c
			m.t[last.Out] = &res
			for _, id := range last.In {
				m.t[id].children = append(m.t[id].children, last.Out)
			}
			live = append(live, last.Out)
			sc.Steps = append(sc.Steps, steps...)
		case x < wCreate+wOp+wBP:
			// back-propagate any pool tensor the provisos allow
			var cands []int
			for _, id := range live {
				if m.backpropAllowed(id) {
					cands = append(cands, id)
				}
			}
			if len(cands) == 0 {
				continue
			}
			// bias towards tracked, unspent non-leaves
			id := cands[r.Intn(len(cands))]
			for tries := 0; tries < 3; tries++ {
				n := m.t[id]
				if n.tracked && !n.spent {
					break
				}
				id = cands[r.Intn(len(cands))]
			}
			m.applyBackprop(id)
			sc.Steps = append(sc.Steps, sim.Step{C: c, Op: "backprop", In: []int{id}, Out: -1})
		case x < wCreate+wOp+wBP+wReset:
			var cands []int
			for _, id := range live {
				if m.resetAllowed(id) {
					cands = append(cands, id)
				}
			}
			if len(cands) == 0 {
				continue
			}
			id := cands[r.Intn(len(cands))]
			b := r.Bool(0.6)
			n := m.t[id]
			*n = m08{exists: true, tracked: b, children: n.children, client: n.client, wasReset: true}
			sc.Steps = append(sc.Steps, sim.Step{C: c, Op: "reset", In: []int{id}, B: b, Out: -1})
		case x < wCreate+wOp+wBP+wReset+wGrad:
			id := live[r.Intn(len(live))]
			st := sim.Step{C: c, Op: "grad", In: []int{id}, Out: -1}
			if m.t[id].hasGrad {
				st.Out = ids.New()
				// shadow: a tensor of the same shape
				shp := shadow.T[id].Shape()
				g, err := tensor.Ones(shp, nil)
				if err != nil {
					sim.Bug("C08 generator: Ones%v: %v", shp, err)
				}
				shadow.T[st.Out] = g
				m.t[st.Out] = &m08{exists: true, taint: true, client: c}
				live = append(live, st.Out)
			}
			sc.Steps = append(sc.Steps, st)
		default:
			id := live[r.Intn(len(live))]
			st := sim.Step{C: c, Op: "bad", In: []int{id}, Out: -1}
			switch r.Intn(6) {
			case 3, 4, 5:
				// the shared catalogue of rejected calls, built around this tensor
				st.Tag, st.N = pickBad(r, shadow.T[id].Shape())
			case 0:
				st.Tag = "backprop-nil"
			case 1:
				st.Tag = "nil-operand"
				st.N = r.Intn(len(c08NilOps))
			default:
				st.Tag = "shape-mismatch"
				st.N = r.Intn(len(c08MismatchOps))
			}
			sc.Steps = append(sc.Steps, st)
		}
	}
	return sc
}

var c08NilOps = []string{"add", "sub", "mul", "div", "elmax", "elmin", "dot", "matmul", "eq", "lt", "patch", "concat"}
var c08MismatchOps = []string{"add", "mul", "elmax", "eq", "dot", "matmul", "concat", "reshape", "squeeze", "sumalong", "slice", "broadcast"}

/* ---------------- execution ---------------- */

type snap08 struct {
	deep uint64
	pub  uint64
}

func (prop c08) Execute(sc *sim.Scenario) *sim.Outcome {
	out := sim.NewOutcome()
	start := sim.Now()
	lh := sim.NewHash()
	sig := sim.NewHash()
	fin := func() *sim.Outcome { return finish(out, lh, sig, start) }
	nclients := sc.CfgInt("clients")
	seed := uint64(sc.Cfg["rngseed"])

	pool := sim.NewPool()
	m := newModel08()
	var live []int
	vals := map[int]uint64{} // ValFP at creation (for the twin and immutability)
	touched := map[int]map[int]bool{}
	probeSpentReuse, probeResetCycle, probeShared := false, false, false
	resetTracked := map[int]bool{}

	// snapshot fingerprints the live tensors. On histories with very many live
	// tensors (the wide flavour) it covers the tensors the step names, the most
	// recent ones and a rotating sample of the rest: a deep fingerprint walks
	// everything a tensor's graph reaches, so fingerprinting all of them at every
	// step is cubic in the history length
	snapN, snapFixed := 0, false
	snapshot := func(focus ...int) map[int]snap08 {
		s := make(map[int]snap08, len(live))
		pick := live
		if len(live) > 150 {
			if !snapFixed {
				snapN++
			}
			pick = append([]int{}, focus...)
			pick = append(pick, live[len(live)-40:]...)
			for i := snapN % 17; i < len(live)-40; i += 17 {
				pick = append(pick, live[i])
			}
		}
		for _, id := range pick {
			t, ok := pool.T[id]
			if !ok {
				continue
			}
			s[id] = snap08{sim.DeepFP(t), sim.PubFP(t)}
		}
		return s
	}
	checkNil := func(where string) bool {
		for _, id := range live {
			has := pool.T[id].Gradient() != nil
			if has != m.t[id].hasGrad {
				if has {
					out.Fail("grad-presence", "%s: tensor %d has a gradient, the model says it must not (tracked=%v spent=%v)", where, id, m.t[id].tracked, m.t[id].spent)
				} else {
					out.Fail("grad-presence", "%s: tensor %d has no gradient, the model says it must (tracked=%v spent=%v)", where, id, m.t[id].tracked, m.t[id].spent)
				}
				return false
			}
		}
		return true
	}
	unchangedExcept := func(before map[int]snap08, except map[int]bool, where, oracle string) bool {
		for _, id := range live {
			b, ok := before[id]
			if !ok || except[id] {
				continue
			}
			t := pool.T[id]
			if sim.PubFP(t) != b.pub {
				out.Fail(oracle, "%s: tensor %d changed (values or gradient) although the step must not touch it", where, id)
				return false
			}
			if sim.DeepFP(t) != b.deep {
				out.Fail(oracle, "%s: tensor %d's own state (tracking / edges / data) changed although the step must not touch it", where, id)
				return false
			}
		}
		return true
	}

	// a tracked root always receives the all-ones start gradient, on top of
	// whatever it already holds: its public state cannot be the same afterwards
	// (unless every element is so large, or not finite, that +1 is absorbed)
	rootDelivered := func(root int, pubBefore uint64, where string) bool {
		t := pool.T[root]
		if sim.PubFP(t) != pubBefore {
			return true
		}
		if g := t.Gradient(); g != nil {
			absorbed := true
			for _, v := range sim.Values(g) {
				if math.Abs(v) < 1<<52 {
					absorbed = false
				}
			}
			if absorbed {
				return true
			}
		}
		out.Fail("tracked-root-not-delivered", "%s: the root is tracked (only ResetGradContext changes tracking) but back-propagating from it left its gradient exactly as it was", where)
		return false
	}

	// Gradient() may hand out an object that is already in the pool (the
	// gradients of y and of an operand of y = a + b are one tensor object):
	// such pulls become aliases of the existing id, the model keeps one state.
	alias := map[int]int{}
	sim.SeedLibraryRNG(seed)
	for si, st := range sc.Steps {
		if len(st.In) > 0 {
			in := make([]int, len(st.In))
			for i, id := range st.In {
				if a, ok := alias[id]; ok {
					id = a
				}
				in[i] = id
			}
			st.In = in
		}
		where := fmt.Sprintf("step %d (c%d %s %s in=%v)", si, st.C, st.Op, st.Tag, st.In)
		lh = lh.Int(st.C).Str(st.Op).Str(st.Tag)
		sig = sig.Int(st.C).Str(st.Op).Str(st.Tag)
		out.Probes["op/"+st.Op]++
		for _, id := range st.In {
			lh = lh.Int(id)
			sig = sig.Int(id)
			if m.t[id] == nil {
				out.Discard = "dangling"
				return out
			}
			if touched[id] == nil {
				touched[id] = map[int]bool{}
			}
			touched[id][st.C] = true
			if len(touched[id]) >= 2 {
				probeShared = true
			}
		}
		sim.Pause()
		before := snapshot(st.In...)
		sim.Resume()
		switch {
		case sim.IsCreator(st.Op):
			res := pool.Apply(st)
			sim.Pause()
			if res.Err != nil || res.T == nil {
				out.Discard = "forward-error"
				sim.Resume()
				return out
			}
			m.t[st.Out] = &m08{exists: true, tracked: st.B, client: st.C}
			live = append(live, st.Out)
			vals[st.Out] = sim.ValFP(res.T)
			if !unchangedExcept(before, nil, where, "immutability") {
				sim.Resume()
				return fin()
			}
			sim.Resume()
		case sim.IsTensorOp(st.Op):
			res := pool.Apply(st)
			sim.Pause()
			if res.Err != nil || res.T == nil {
				sim.Resume()
				if _, ok := res.Err.(sim.ErrDangling); ok {
					out.Discard = "dangling"
				} else {
					out.Discard = "forward-error"
				}
				return out
			}
			n, amb := m.opOutcome(st.Op, st.In)
			if amb {
				sim.Resume()
				out.Discard = "ambiguous"
				return out
			}
			for _, id := range st.In {
				if m.t[id].spent {
					probeSpentReuse = true
				}
			}
			n.client = st.C
			m.t[st.Out] = &n
			for _, id := range st.In {
				m.t[id].children = append(m.t[id].children, st.Out)
			}
			live = append(live, st.Out)
			vals[st.Out] = sim.ValFP(res.T)
			lh = lh.U64(vals[st.Out])
			if !unchangedExcept(before, nil, where, "immutability") {
				sim.Resume()
				return fin()
			}
			sim.Resume()
		case st.Op == "backprop":
			root := st.In[0]
			if !m.backpropAllowed(root) {
				out.Discard = "proviso-a"
				return out
			}
			if m.t[root].wasReset && m.t[root].tracked {
				probeResetCycle = true
			}
			v := m.visitSet(root)
			for _, id := range v {
				if resetTracked[id] {
					probeResetCycle = true
				}
			}
			err := tensor.BackPropagate(pool.T[root])
			sim.Pause()
			if err != nil {
				out.Fail("backprop-error", "%s: BackPropagate returned error: %v", where, err)
				sim.Resume()
				return fin()
			}
			vs := m.applyBackprop(root)
			ex := map[int]bool{}
			for _, id := range vs {
				ex[id] = true
			}
			oracle := "backprop-reached-outside"
			if len(vs) == 0 {
				oracle = "untracked-root-changed-state"
			}
			if !unchangedExcept(before, ex, where, oracle) {
				sim.Resume()
				return fin()
			}
			if len(vs) > 0 && !rootDelivered(root, before[root].pub, where) {
				sim.Resume()
				return fin()
			}
			// values of visited tensors never change either
			for _, id := range vs {
				if sim.ValFP(pool.T[id]) != vals[id] {
					out.Fail("immutability", "%s: values of tensor %d changed during back-propagation", where, id)
					sim.Resume()
					return fin()
				}
			}
			sim.Resume()
		case st.Op == "reset":
			id := st.In[0]
			if !m.resetAllowed(id) {
				out.Discard = "proviso-b"
				return out
			}
			pool.T[id].ResetGradContext(st.B)
			sim.Pause()
			n := m.t[id]
			*n = m08{exists: true, tracked: st.B, children: n.children, client: n.client, wasReset: true}
			if st.B {
				resetTracked[id] = true
			}
			if !unchangedExcept(before, map[int]bool{id: true}, where, "reset-touched-other") {
				sim.Resume()
				return fin()
			}
			if sim.ValFP(pool.T[id]) != vals[id] {
				out.Fail("immutability", "%s: values of tensor %d changed by ResetGradContext", where, id)
				sim.Resume()
				return fin()
			}
			sim.Resume()
		case st.Op == "grad":
			id := st.In[0]
			g := pool.T[id].Gradient()
			sim.Pause()
			if (g != nil) != m.t[id].hasGrad {
				// reported by checkNil below with a better message
			} else if g != nil {
				if st.Out < 0 {
					sim.Resume()
					out.Discard = "malformed"
					return out
				}
				aliased := false
				for _, lid := range live {
					if pool.T[lid] == g {
						alias[st.Out] = lid
						aliased = true
						out.Probes["gradient-object-already-in-pool"]++
						break
					}
				}
				if aliased {
					sim.Resume()
					break
				}
				pool.T[st.Out] = g
				m.t[st.Out] = &m08{exists: true, taint: true, client: st.C}
				live = append(live, st.Out)
				vals[st.Out] = sim.ValFP(g)
				if !sim.ShapeEq(g.Shape(), pool.T[id].Shape()) {
					out.Fail("grad-shape", "%s: gradient shape %v differs from tensor shape %v", where, g.Shape(), pool.T[id].Shape())
					sim.Resume()
					return fin()
				}
			}
			sim.Resume()
		case st.Op == "bad":
			id := st.In[0]
			x := pool.T[id]
			var err error
			var got tensor.Tensor
			switch st.Tag {
			case "backprop-nil":
				err = sim.BackPropNil()
			case "nil-operand":
				op := c08NilOps[st.N%len(c08NilOps)]
				switch op {
				case "concat":
					got, err = tensor.Concat([]tensor.Tensor{x, nil}, 0)
				case "patch":
					got, err = x.Patch(nil, nil)
				default:
					r := sim.ApplyOn(sim.Step{Op: op, Out: -1}, []tensor.Tensor{x, nil})
					got, err = r.T, r.Err
				}
			case "shape-mismatch":
				op := c08MismatchOps[st.N%len(c08MismatchOps)]
				shp := x.Shape()
				// one more trailing dimension: a different rank, never the same shape
				other, e := tensor.Ones(append(cpI(shp), 2), nil)
				if e != nil {
					sim.Bug("mismatch operand: %v", e)
				}
				switch op {
				case "add", "mul":
					// right-aligned broadcasting: force a conflict on the last dim
					last := 2
					if len(shp) > 0 && shp[len(shp)-1] == 2 {
						last = 3
					}
					if len(shp) == 0 || shp[len(shp)-1] == 1 {
						err = fmt.Errorf("skipped") // everything broadcasts against size 1
						break
					}
					o2, _ := tensor.Ones([]int{last}, nil)
					r := sim.ApplyOn(sim.Step{Op: op, Out: -1}, []tensor.Tensor{x, o2})
					got, err = r.T, r.Err
				case "elmax", "eq":
					r := sim.ApplyOn(sim.Step{Op: op, Out: -1}, []tensor.Tensor{x, other})
					got, err = r.T, r.Err
				case "dot":
					n := 2
					if len(shp) > 0 && shp[len(shp)-1] == 2 {
						n = 3
					}
					o2, _ := tensor.Ones([]int{n}, nil)
					r := sim.ApplyOn(sim.Step{Op: "dot", Out: -1}, []tensor.Tensor{x, o2})
					got, err = r.T, r.Err
					if len(shp) == 0 {
						// rank 0 is itself invalid for Dot: still an error
					}
				case "matmul":
					inner := 2
					if len(shp) > 0 {
						inner = shp[len(shp)-1] + 1 // never the operand's last dimension
					}
					o2, _ := tensor.Ones([]int{inner, 2}, nil)
					r := sim.ApplyOn(sim.Step{Op: "matmul", Out: -1}, []tensor.Tensor{x, o2})
					got, err = r.T, r.Err
				case "concat":
					got, err = tensor.Concat([]tensor.Tensor{x, x}, len(shp)) // dimension out of range (scalars cannot be concatenated at all)
				case "reshape":
					got, err = x.Reshape([]int{sim.NElems(shp) + 1})
				case "squeeze":
					got, err = x.Squeeze(len(shp))
				case "sumalong":
					got, err = x.SumAlong(len(shp))
				case "slice":
					got, err = x.Slice([]tensor.Range{{From: 0, To: 1 << 40}})
				case "broadcast":
					got, err = x.Broadcast(append(cpI(shp), 0))
				}
			default:
				if badIndexOf(st.Tag) < 0 {
					out.Discard = "malformed"
					return out
				}
				oracle, msg, _, _ := badVerdict(st.Tag, st.N, x)
				if oracle == "harness" {
					out.Discard = "malformed"
					return out
				}
				if oracle != "" {
					out.Fail(oracle, "%s: %s", where, msg)
					return fin()
				}
				err = fmt.Errorf("rejected")
			}
			_ = got // what a rejected call returns besides its error is not judged
			sim.Pause()
			if err != nil && err.Error() == "skipped" {
				sim.Resume()
				break
			}
			out.Faults["invalid-call/"+st.Tag]++
			if err == nil {
				out.Fail("invalid-call-accepted", "%s: the invalid call returned no error", where)
				sim.Resume()
				return fin()
			}
			if !unchangedExcept(before, nil, where, "rejected-call-changed-state") {
				sim.Resume()
				return fin()
			}
			sim.Resume()
		default:
			out.Discard = "malformed"
			return out
		}
		sim.Pause()
		ok := checkNil(where)
		sim.Resume()
		if !ok {
			return fin()
		}
	}

	/* twin: tracking never changes forward values */
	sim.Pause()
	defer sim.Resume()
	sim.SeedLibraryRNG(seed)
	twin := sim.NewPool()
	for _, st := range sc.Steps {
		if !(sim.IsCreator(st.Op) || sim.IsTensorOp(st.Op)) {
			continue
		}
		s := st
		s.B = false
		missing := false
		for _, id := range s.In {
			if _, ok := twin.T[id]; !ok {
				missing = true // depends on a gradient tensor: not part of the twin
			}
		}
		if missing {
			continue
		}
		res := twin.Apply(s)
		if res.Err != nil || res.T == nil {
			out.Fail("tracking-changed-forward", "untracked twin: step %s failed (%v) although it succeeded with tracking", st.String(), res.Err)
			return fin()
		}
		if sim.ValFP(res.T) != vals[st.Out] {
			out.Fail("tracking-changed-forward", "tensor %d (%s): shape or elements differ between the tracked history and the all-untracked twin", st.Out, st.Op)
			return fin()
		}
	}

	/* final sweep: make 'tracked' observable. Bounded: on long histories the
	   most recent 32 admissible roots and 16 spread evenly over the older ones
	   (every sweep step fingerprints every live tensor, so an unbounded sweep
	   is quadratic in the history length and cubic in the worst case) */
	var roots []int
	for i := len(live) - 1; i >= 0; i-- {
		roots = append(roots, live[i])
	}
	if len(roots) > 48 {
		older := roots[32:]
		roots = roots[:32:32]
		for k := 0; k < 16; k++ {
			roots = append(roots, older[k*len(older)/16])
		}
		out.Probes["final-sweep-bounded"]++
	}
	snapFixed = true // the same sample before and after every sweep step
	before := snapshot(roots...)
	for _, id := range roots {
		if !m.backpropAllowed(id) {
			continue
		}
		err := tensor.BackPropagate(pool.T[id])
		if err != nil {
			out.Fail("backprop-error", "final sweep: BackPropagate(tensor %d) returned error: %v", id, err)
			return fin()
		}
		vs := m.applyBackprop(id)
		ex := map[int]bool{}
		for _, v := range vs {
			ex[v] = true
		}
		oracle := "backprop-reached-outside"
		if len(vs) == 0 {
			oracle = "untracked-root-changed-state"
		}
		where := fmt.Sprintf("final sweep, BackPropagate(tensor %d)", id)
		after := snapshot(roots...)
		for _, lid := range live {
			b, ok := before[lid]
			if _, ok2 := after[lid]; !ok || !ok2 || ex[lid] {
				continue
			}
			if after[lid].pub != b.pub {
				out.Fail(oracle, "%s: tensor %d changed (values or gradient) although the step must not touch it", where, lid)
				return fin()
			}
			if after[lid].deep != b.deep {
				out.Fail(oracle, "%s: tensor %d's own state (tracking / edges / data) changed although the step must not touch it", where, lid)
				return fin()
			}
		}
		if len(vs) > 0 && !rootDelivered(id, before[id].pub, where) {
			return fin()
		}
		before = after
		if !checkNil(where) {
			out.Violation.Oracle = "sweep-" + out.Violation.Oracle
			return fin()
		}
	}
	if probeSpentReuse {
		out.Probes["spent-tensor-reused"]++
	}
	if probeResetCycle {
		out.Probes["reset-tensor-retracked-and-backpropagated"]++
	}
	if probeShared && nclients > 1 {
		out.Probes["two-clients-on-one-tensor"]++
	}
	out.Nontrivial = probeSpentReuse && probeResetCycle && probeShared && nclients > 1
	return fin()
}

func minInt(a, b int) int {
	if a < b {
		return a
	}
	return b
}

func (c08) Shrinks(sc *sim.Scenario) []*sim.Scenario {
	return sim.StepShrinks(sc)
}
