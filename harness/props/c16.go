package props

import (
	"fmt"
	"github.com/sahandsafizadeh/qeep/component/optimizers"
	"math"
	"strings"

	"github.com/sahandsafizadeh/qeep/component/layers"
	"github.com/sahandsafizadeh/qeep/tensor"

	"qverif/sim"
)

// C16 — the FC layer is an affine map per output unit with live, trainable
// parameters.
//
// Cfg: D, O, init (0 harness values W0/B0, 1 library defaults), rngseed.
// Steps: client 0 (user): "forward" (N = batch, F = x, B = x tracked, Out =
// forward handle), "backprop" (In[0] = forward handle, F = weighting G),
// "bad" (Tag); client 1 (operator): "swap" (N = 0 W | 1 B, F = new values,
// B = tracked), "weights" (re-read the pointers).
type c16 struct{}

func init() { sim.Register(c16{}) }

func (c16) ID() string    { return "C16" }
func (c16) Level() string { return "exploration" }
func (c16) Rule() string {
	return "histories on one FC layer (random widths; harness-chosen non-uniform W, B incl. zeros, or library defaults under a seeded RNG) by two clients interleaved at call granularity: a user doing Forward (tracked or untracked input, batch 1-6), weighting the output with a random untracked G and back-propagating; an operator replacing W or B through the Weights() pointers at arbitrary instants (pointer-swap fault: before a forward, between a forward and its back-propagation, after it) and re-reading the pointers; invalid-call faults (0 / 2 inputs, nil, rank 1 / 3). Model: the arrays and tensor objects behind each slot and, per forward, which objects were current. Non-trivial: a swap fell between a forward and its back-propagation. Distinct: hash of the (client, op, slot, batch, flags) sequence. Also: library-constant replacements, tie, optimizer step on a slot, spread input list, the layer applied 2-70 times to its own output in one graph, rare long-lived layers (300-1200 steps), rejected calls with a live parameter as operand."
}
func (c16) Assumptions() []string {
	return []string{
		"forward tolerance 1e-12 * (sum_d |W[o]*x[b][d]| + |B[o]|); gradient tolerance 1e-10 * sum of absolute terms",
		"row independence is checked bitwise with a twin forward in which all other rows are replaced",
		"known finding C16/broadcast-mean: a W / B gradient equal to the derivative with the batch expansion averaged instead of summed is reported as KNOWN-FINDING; batch-1 histories coincide in both modes and are checked strictly",
		"a forward that used a parameter object already reached by an earlier back-propagation is 'dead' (C08: results of spent tensors are untracked): back-propagating it must change nothing",
	}
}
func (c16) Extra() map[string]any {
	e := baseExtra()
	e["fault_kinds"] = []string{"pointer-swap (fresh tensors, library constants, tie, optimizer step, reset in place, layer copied by value)", "invalid-call (invalid Forward, the shared catalogue with a live parameter as operand)", "reorder (interleaving of user and operator)"}
	return e
}

var c16Bad = []string{"zero-inputs", "two-inputs", "nil", "rank1", "rank3"}

func (c16) Generate(r *sim.Rand, tier string) *sim.Scenario {
	sc := &sim.Scenario{Cfg: map[string]float64{}, Data: map[string][]float64{}}
	D, O := r.Range(1, 5), r.Range(1, 4)
	if r.Bool(0.1) {
		D = r.Range(6, 24)
	}
	if r.Bool(0.1) {
		O = r.Range(5, 18)
	}
	bigBatch := false
	bigDims := false
	switch x := r.Intn(2000); {
	case x < 1:
		D, O, bigDims = r.Range(4100, 5300), r.Range(1, 2), true // rows of thousands of features
	case x < 2:
		D, O, bigBatch, bigDims = r.Range(20, 60), r.Range(2, 4), true, true // batches of hundreds of rows
	}
	gRows := 40 // rows of upstream weights a back-propagation step carries (the largest batch)
	if bigBatch {
		gRows = 700
	}
	sc.Cfg["D"], sc.Cfg["O"] = float64(D), float64(O)
	sc.Cfg["rngseed"] = float64(r.Intn(1 << 30))
	if r.Bool(0.5) {
		sc.Cfg["spread"] = 1
	}
	if r.Bool(0.2) {
		sc.Cfg["init"] = 1
	} else if r.Bool(0.25) {
		sc.Cfg["init"] = 2
		sc.Data["initk"] = genLibInit(r)
	} else {
		zeros := r.Bool(0.1)
		w, b := make([]float64, O), make([]float64, O)
		for i := range w {
			if !zeros {
				w[i], b[i] = r.Value(true), r.Value(true)
			}
		}
		sc.Data["W0"], sc.Data["B0"] = w, b
	}
	max := 16
	if tier == "thorough" {
		max = 30
	}
	if r.Bool(0.1) {
		max *= 3 // long histories
	}
	n := r.Range(2, max)
	if bigDims {
		n = r.Range(2, 8) // few, heavy steps
	}
	long := !bigDims && r.Bool(0.004)
	if long {
		n = r.Range(300, 1200) // a long-lived layer: hundreds of forwards, back-propagations, swaps and resets
	}
	pStack := []float64{0, 0, 0.05, 0.3}[r.Intn(4)]
	pSwap := []float64{0.1, 0.3, 0.5}[r.Intn(3)]
	pBatch1 := []float64{0.2, 0.2, 1}[r.Intn(3)]
	var pending []int // forward handles not yet back-propagated
	nf := 0
	for k := 0; k < n; k++ {
		switch {
		case r.Bool(pSwap):
			st := sim.Step{C: 1, Op: "swap", N: r.Intn(2), F: randData(r, O, true), B: r.Bool(0.85), Out: -1}
			if r.Bool(0.25) {
				st.Tag = []string{"full", "full-then-reset"}[r.Intn(2)]
				st.F[0] = []float64{0, 1, 1, 0.5, -1, 2}[r.Intn(6)]
			}
			sc.Steps = append(sc.Steps, st)
			if r.Bool(0.3) {
				sc.Steps = append(sc.Steps, sim.Step{C: 1, Op: "weights", Out: -1})
			}
		case len(pending) == 0 && r.Bool(0.05):
			k := r.Intn(2)
			sc.Steps = append(sc.Steps, sim.Step{C: 1, Op: "update", N: k, Out: -1})
			if r.Bool(0.8) {
				sc.Steps = append(sc.Steps, sim.Step{C: 1, Op: "reset", N: k, B: r.Bool(0.6), Out: -1})
			}
		case r.Bool(0.03):
			sc.Steps = append(sc.Steps, sim.Step{C: 1, Op: "tie", N: r.Intn(2), Out: -1})
		case r.Bool(0.04):
			// the layer value is copied (FC has exported fields; copying it is
			// ordinary Go) and the copy is used from here on
			sc.Steps = append(sc.Steps, sim.Step{C: 1, Op: "clone", Out: -1})
		case len(pending) == 0 && r.Bool(0.15):
			// second and later use of the SAME parameter object: reset it in place
			sc.Steps = append(sc.Steps, sim.Step{C: 1, Op: "reset", N: r.Intn(2), B: r.Bool(0.85), Out: -1})
		case r.Bool(0.08):
			if r.Bool(0.5) {
				// a rejected tensor-level call (or optimizer step) with a live parameter as operand
				tag, n := pickBad(r, []int{O})
				sc.Steps = append(sc.Steps, sim.Step{C: 0, Op: "bad", Tag: "cat:" + tag, N: n, I: []int{r.Intn(2)}, Out: -1})
			} else {
				sc.Steps = append(sc.Steps, sim.Step{C: 0, Op: "bad", Tag: c16Bad[r.Intn(len(c16Bad))], N: r.Range(1, 3), Out: -1})
			}
		case len(pending) > 0 && r.Bool(0.5):
			i := r.Intn(len(pending))
			h := pending[i]
			pending = append(pending[:i], pending[i+1:]...)
			// G sized for the largest batch; executor uses the first batch*O values
			sc.Steps = append(sc.Steps, sim.Step{C: 0, Op: "backprop", In: []int{h}, F: randData(r, gRows*O, true), Out: -1})
		default:
			batch := r.Range(1, 6)
			if r.Bool(0.15) {
				batch = r.Range(7, 40) // any batch size is in the quantifier
			}
			if r.Bool(pBatch1) {
				batch = 1
			}
			if bigBatch && r.Bool(0.7) {
				batch = r.Range(200, 700)
			}
			st := sim.Step{C: 0, Op: "forward", N: batch, F: randData(r, batch*D, true), B: r.Bool(0.5), Out: nf}
			if D == O && r.Bool(pStack) {
				st.Tag, st.N, st.I = "stack", 1, []int{r.Range(2, 6)}
				if r.Bool(0.15) {
					st.I[0] = r.Range(25, 70) // a graph with hundreds of contexts
				}
				st.F = st.F[:D]
			}
			sc.Steps = append(sc.Steps, st)
			pending = append(pending, nf)
			nf++
		}
	}
	for _, h := range pending {
		if r.Bool(0.7) {
			sc.Steps = append(sc.Steps, sim.Step{C: 0, Op: "backprop", In: []int{h}, F: randData(r, gRows*O, true), Out: -1})
		}
	}
	return sc
}

type pobj struct {
	t       tensor.Tensor
	vals    []float64
	tracked bool
	spent   bool
	gs, gm  []float64 // expected accumulated gradient, sum / mean mode
	ga      []float64 // absolute terms
	hasGrad bool
}

type fwdRec struct {
	x       tensor.Tensor
	xv      []float64
	xtr     bool
	batch   int
	y       tensor.Tensor
	w, b    *pobj
	dead    bool
	done    bool
	tracked bool
	stackS  []float64 // stacked application (batch 1, Outputs == Inputs): s_k = sum_d v_{k-1}[d] for every level k
	stackSA []float64 // magnitude of the terms behind s_k (a sum that cancels is still only known to rounding of its terms)
}

func (prop c16) Execute(sc *sim.Scenario) *sim.Outcome {
	out := sim.NewOutcome()
	start := sim.Now()
	lh := sim.NewHash()
	sig := sim.NewHash()
	fin := func() *sim.Outcome { return finish(out, lh, sig, start) }
	D, O := sc.CfgInt("D"), sc.CfgInt("O")
	if D < 1 || O < 1 {
		out.Discard = "malformed"
		return out
	}
	sim.SeedLibraryRNG(uint64(sc.Cfg["rngseed"]))
	fcc := &layers.FCConfig{Inputs: D, Outputs: O}
	switch sc.CfgInt("init") {
	case 0:
		if len(sc.Data["W0"]) != O || len(sc.Data["B0"]) != O {
			out.Discard = "malformed"
			return out
		}
		fcc.Initializers = map[string]layers.Initializer{"Weight": hInit{sc.Data["W0"]}, "Bias": hInit{sc.Data["B0"]}}
	case 2:
		fcc.Initializers = libInitializers(sc.Data["initk"])
		if fcc.Initializers == nil {
			out.Discard = "malformed"
			return out
		}
	}
	fc, err := layers.NewFC(fcc)
	if err != nil {
		out.Fail("model-assembly", "NewFC(%d -> %d) failed: %v", D, O, err)
		return fin()
	}
	ws := fc.Weights()
	if len(ws) != 2 || ws[0].Value == nil || ws[1].Value == nil || *ws[0].Value == nil || *ws[1].Value == nil {
		out.Fail("weights-pointers", "Weights() did not return two non-nil parameters")
		return fin()
	}
	if !ws[0].Trainable || !ws[1].Trainable {
		out.Fail("weights-pointers", "FC parameters are not marked trainable")
		return fin()
	}
	if *ws[0].Value == *ws[1].Value {
		out.Fail("weights-pointers", "W and B are one and the same tensor object after construction")
		return fin()
	}
	ptr := [2]*tensor.Tensor{ws[0].Value, ws[1].Value}
	sim.Pause()
	cur := [2]*pobj{}
	for k := 0; k < 2; k++ {
		t := *ptr[k]
		if !sim.ShapeEq(t.Shape(), []int{O}) {
			out.Fail("parameter-shape", "initial parameter %d has shape %v, expected [%d]", k, t.Shape(), O)
			sim.Resume()
			return fin()
		}
		cur[k] = &pobj{t: t, vals: sim.Values(t), tracked: true}
	}
	sim.Resume()
	all := []*pobj{cur[0], cur[1]}
	var fwds []*fwdRec
	ins := make([]tensor.Tensor, 1)
	swapBetween := false

	// reRead: call Weights() again (only at the operator's explicit "weights"
	// steps and at the end — an implementation may react to the call itself,
	// so the harness must not issue it on its own after every step)
	checkPointers := func(where string, reRead bool) bool {
		if reRead {
			w2 := fc.Weights()
			if len(w2) != 2 || w2[0].Value != ptr[0] || w2[1].Value != ptr[1] {
				out.Fail("weights-pointers", "%s: Weights() returned different addresses than before", where)
				return false
			}
		}
		if *ptr[0] != cur[0].t || *ptr[1] != cur[1].t {
			out.Fail("weights-pointers", "%s: the tensors behind the Weights() pointers are not the ones last stored there", where)
			return false
		}
		return true
	}
	checkGrads := func(where string) bool {
		sim.Pause()
		defer sim.Resume()
		for i, p := range all {
			g := p.t.Gradient()
			if (g != nil) != p.hasGrad {
				out.Fail("parameter-gradient-presence", "%s: parameter object #%d: gradient present=%v, expected %v", where, i, g != nil, p.hasGrad)
				return false
			}
			if g == nil {
				continue
			}
			if !sim.ShapeEq(g.Shape(), []int{O}) {
				out.Fail("parameter-gradient-shape", "%s: parameter object #%d: gradient shape %v, expected [%d]", where, i, g.Shape(), O)
				return false
			}
			gv := sim.Values(g)
			sumOK, meanOK := true, true
			var why string
			for o := range gv {
				tol := 1e-10*p.ga[o] + 1e-300
				if !(math.Abs(gv[o]-p.gs[o]) <= tol) {
					sumOK = false
					if why == "" {
						why = fmt.Sprintf("element %d: got %v, derivative of the affine formula %v, batch-averaged variant %v", o, gv[o], p.gs[o], p.gm[o])
					}
				}
				if !(math.Abs(gv[o]-p.gm[o]) <= tol) {
					meanOK = false
				}
			}
			switch {
			case sumOK:
			case meanOK:
				if len(out.KnownHits) == 0 {
					out.KnownHits = append(out.KnownHits, sim.KnownHit{Key: "broadcast-mean", V: sim.Violation{Oracle: "parameter-gradient-broadcast-mean",
						Msg: fmt.Sprintf("%s: parameter object #%d: gradient is the batch average instead of the batch sum: %s", where, i, why)}})
				}
			default:
				out.Fail("parameter-gradient", "%s: parameter object #%d: %s", where, i, why)
				return false
			}
		}
		return true
	}

	for si, st := range sc.Steps {
		where := fmt.Sprintf("step %d (c%d %s %s)", si, st.C, st.Op, st.Tag)
		lh = lh.Int(st.C).Str(st.Op).Str(st.Tag).Int(st.N)
		sig = sig.Int(st.C).Str(st.Op).Str(st.Tag).Int(st.N)
		if st.B {
			sig = sig.Byte(1)
		}
		switch st.Op {
		case "weights":
			if !checkPointers(where, true) {
				return fin()
			}
		case "clone":
			nfc := *fc
			fc = &nfc
			w2 := fc.Weights()
			if len(w2) != 2 || w2[0].Value == nil || w2[1].Value == nil {
				out.Fail("weights-pointers", "%s: Weights() of a copied layer did not return two parameters", where)
				return fin()
			}
			ptr = [2]*tensor.Tensor{w2[0].Value, w2[1].Value}
			out.Faults["layer-copied-by-value"]++
			if !checkPointers(where, false) {
				return fin()
			}
		case "swap":
			k := st.N % 2
			if len(st.F) < O {
				out.Discard = "malformed"
				return out
			}
			vals := cpF(st.F[:O])
			var nt tensor.Tensor
			switch st.Tag {
			case "full", "full-then-reset":
				// the caller builds the replacement with the library's constant
				// constructors (equal requests may come back as one object if
				// constants were ever shared: the parameters must still behave as
				// two tensors)
				for i := range vals {
					vals[i] = vals[0]
				}
				var err error
				switch {
				case vals[0] == 0:
					nt, err = tensor.Zeros([]int{O}, &tensor.Config{Device: tensor.CPU, GradTrack: st.Tag == "full" && st.B})
				case vals[0] == 1:
					nt, err = tensor.Ones([]int{O}, &tensor.Config{Device: tensor.CPU, GradTrack: st.Tag == "full" && st.B})
				default:
					nt, err = tensor.Full([]int{O}, vals[0], &tensor.Config{Device: tensor.CPU, GradTrack: st.Tag == "full" && st.B})
				}
				if err != nil {
					out.Fail("constructor-error", "%s: constant constructor for a parameter of length %d returned error: %v", where, O, err)
					return fin()
				}
				if st.Tag == "full-then-reset" {
					nt.ResetGradContext(st.B)
				}
				out.Faults["pointer-swap/library-constant"]++
			default:
				nt = sim.Leaf([]int{O}, vals, st.B)
			}
			*ptr[k] = nt
			np := &pobj{t: nt, vals: vals, tracked: st.B}
			cur[k] = np
			all = append(all, np)
			out.Faults["pointer-swap"]++
			for _, f := range fwds {
				if !f.done {
					swapBetween = true
					out.Probes["swap-between-forward-and-backprop"]++
					break
				}
			}
			if !checkPointers(where, false) {
				return fin()
			}
		case "update":
			// an optimizer step on one slot: the tensor behind the pointer becomes
			// the result of an operation on a spent tensor (untracked, itself spent:
			// forwards with it are dead until it is reset or replaced)
			k := st.N % 2
			if !cur[k].hasGrad {
				break // nothing to step from: Update would rightly be rejected
			}
			pendingOn := false
			for _, f := range fwds {
				if f != nil && !f.done && (f.w == cur[k] || f.b == cur[k]) {
					pendingOn = true // a not yet back-propagated output hangs on it: the operator waits
				}
			}
			if pendingOn {
				break
			}
			if err := optimizers.NewSGD(&optimizers.SGDConfig{LearningRate: 0.05}).Update(ptr[k]); err != nil {
				out.Fail("update-error", "%s: SGD.Update of parameter %d (which holds a gradient) failed: %v", where, k, err)
				return fin()
			}
			sim.Pause()
			np := &pobj{t: *ptr[k], vals: sim.Values(*ptr[k]), tracked: false, spent: true}
			sim.Resume()
			cur[k] = np
			all = append(all, np)
			out.Faults["pointer-swap/optimizer-step"]++
			if !checkPointers(where, false) || !checkGrads(where) {
				return fin()
			}
		case "tie":
			// the same tensor object in both slots (legal: both have shape [Outputs]);
			// it then plays both roles of the formula and collects both gradients
			src := st.N % 2
			*ptr[1-src] = *ptr[src]
			cur[1-src] = cur[src]
			out.Faults["pointer-swap/tied"]++
			if !checkPointers(where, false) {
				return fin()
			}
		case "reset":
			k := st.N % 2
			for _, f := range fwds {
				if f != nil && !f.done && (f.w == cur[k] || f.b == cur[k]) {
					// C08 proviso (b): a tracked, not yet back-propagated result still hangs on it
					out.Discard = "proviso-b"
					return out
				}
			}
			(*ptr[k]).ResetGradContext(st.B)
			p := cur[k]
			p.tracked, p.spent, p.hasGrad = st.B, false, false
			p.gs, p.gm, p.ga = nil, nil, nil
			out.Faults["reset-in-place"]++
			if !checkPointers(where, false) || !checkGrads(where) {
				return fin()
			}
		case "forward":
			batch := st.N
			if batch < 1 || len(st.F) < batch*D {
				out.Discard = "malformed"
				return out
			}
			xv := cpF(st.F[:batch*D])
			x := sim.Leaf([]int{batch, D}, xv, st.B)
			var y tensor.Tensor
			var err error
			if sc.Cfg["spread"] == 1 {
				// the caller keeps one input list and spreads it into every Forward
				ins[0] = x
				y, err = fc.Forward(ins...)
				if ins[0] != x {
					out.Fail("forward-wrote-caller-slice", "%s: the input list spread into Forward holds another tensor after the call", where)
					return fin()
				}
			} else {
				y, err = fc.Forward(x)
			}
			if err != nil || y == nil {
				out.Fail("forward-error", "%s: Forward of a [%d,%d] input failed: %v", where, batch, D, err)
				return fin()
			}
			sim.Pause()
			if !sim.ShapeEq(y.Shape(), []int{batch, O}) {
				out.Fail("forward-shape", "%s: output shape %v, expected [%d,%d]", where, y.Shape(), batch, O)
				sim.Resume()
				return fin()
			}
			yv := sim.Values(y)
			sim.Resume()
			W, B := cur[0].vals, cur[1].vals
			for b := 0; b < batch; b++ {
				S, SA := 0.0, 0.0
				for d := 0; d < D; d++ {
					S += xv[b*D+d]
				}
				for o := 0; o < O; o++ {
					SA = 0
					for d := 0; d < D; d++ {
						SA += math.Abs(W[o] * xv[b*D+d])
					}
					want := W[o]*S + B[o]
					tol := 1e-12*(SA+math.Abs(B[o])) + 1e-300
					lh = lh.F64(yv[b*O+o])
					if !(math.Abs(yv[b*O+o]-want) <= tol) {
						out.Fail("forward-value", "%s: y[%d][%d] = %v, expected W[o]*sum_d x[b][d] + B[o] = %v with the current parameters W=%v B=%v", where, b, o, yv[b*O+o], want, W, B)
						return fin()
					}
				}
			}
			// row independence: replace every other row, row r must be bitwise the same
			if batch > 1 {
				rrow := si % batch
				x2v := make([]float64, len(xv))
				for i := range x2v {
					x2v[i] = -0.37*xv[i] + 1.25
				}
				copy(x2v[rrow*D:(rrow+1)*D], xv[rrow*D:(rrow+1)*D])
				y2, err := fc.Forward(sim.Leaf([]int{batch, D}, x2v, false))
				if err != nil {
					out.Fail("forward-error", "%s: twin Forward failed: %v", where, err)
					return fin()
				}
				sim.Pause()
				y2v := sim.Values(y2)
				sim.Resume()
				for o := 0; o < O; o++ {
					if math.Float64bits(y2v[rrow*O+o]) != math.Float64bits(yv[rrow*O+o]) {
						out.Fail("row-dependence", "%s: output row %d changed (%v -> %v) when only the other input rows were replaced", where, rrow, yv[rrow*O+o], y2v[rrow*O+o])
						return fin()
					}
				}
			}
			f := &fwdRec{x: x, xv: xv, xtr: st.B, batch: batch, y: y, w: cur[0], b: cur[1]}
			f.dead = cur[0].spent || cur[1].spent
			f.tracked = !f.dead && (cur[0].tracked || cur[1].tracked || st.B)
			if st.Tag == "stack" && len(st.I) == 1 && batch == 1 && D == O {
				// the same layer applied K times in one graph: v_k[o] = W[o]*sum_d v_{k-1}[d] + B[o]
				K := st.I[0]
				v := cpF(xv)
				va := make([]float64, D) // magnitude of the terms behind v (comparison scale)
				for d := range va {
					va[d] = math.Abs(v[d])
				}
				for k := 1; k <= K; k++ {
					S, SA := 0.0, 0.0
					for d := 0; d < D; d++ {
						S += v[d]
						SA += va[d]
					}
					f.stackS = append(f.stackS, S)
					f.stackSA = append(f.stackSA, SA)
					nv, nva := make([]float64, O), make([]float64, O)
					for o := 0; o < O; o++ {
						nv[o] = W[o]*S + B[o]
						nva[o] = math.Abs(W[o])*SA + math.Abs(B[o])
					}
					v, va = nv, nva
					for o := 0; o < O; o++ {
						if !(va[o] < 1e120) {
							out.Discard = "stack-out-of-range" // the formula itself leaves the range where comparing makes sense
							return out
						}
					}
					if k > 1 {
						var err error
						if y, err = fc.Forward(y); err != nil || y == nil {
							out.Fail("forward-error", "%s: application %d of %d of the layer to its own output failed: %v", where, k, K, err)
							return fin()
						}
					}
				}
				f.y = y
				sim.Pause()
				yv = sim.Values(y)
				sim.Resume()
				for o := 0; o < O; o++ {
					if !(math.Abs(yv[o]-v[o]) <= 1e-11*float64(K)*va[o]+1e-300) {
						out.Fail("forward-value", "%s: after %d applications y[0][%d] = %v, the formula applied %d times gives %v", where, K, o, yv[o], K, v[o])
						return fin()
					}
				}
				out.Probes["layer-applied-many-times-in-one-graph"]++
			}
			for len(fwds) <= st.Out {
				fwds = append(fwds, nil)
			}
			if st.Out < 0 {
				out.Discard = "malformed"
				return out
			}
			fwds[st.Out] = f
			if !checkPointers(where, false) {
				return fin()
			}
		case "backprop":
			if len(st.In) != 1 || st.In[0] < 0 || st.In[0] >= len(fwds) || fwds[st.In[0]] == nil || fwds[st.In[0]].done {
				out.Discard = "dangling"
				return out
			}
			f := fwds[st.In[0]]
			if len(st.F) < f.batch*O {
				out.Discard = "malformed"
				return out
			}
			G := st.F[:f.batch*O]
			gt := sim.Leaf([]int{f.batch, O}, G, false)
			z, err := f.y.Mul(gt)
			if err != nil {
				out.Fail("forward-error", "%s: weighting the output failed: %v", where, err)
				return fin()
			}
			if err := tensor.BackPropagate(z); err != nil {
				out.Fail("backprop-error", "%s: BackPropagate failed: %v", where, err)
				return fin()
			}
			f.done = true
			var stackDX, stackDXA float64
			if f.tracked && len(f.stackS) > 1 {
				// reverse sweep over the K applications (batch 1)
				gv, ga := cpF(G[:O]), make([]float64, O)
				for o := range ga {
					ga[o] = math.Abs(gv[o])
				}
				for _, p := range []*pobj{f.w, f.b} {
					if p.tracked && p.gs == nil {
						p.gs, p.gm, p.ga = make([]float64, O), make([]float64, O), make([]float64, O)
					}
				}
				for k := len(f.stackS) - 1; k >= 0; k-- {
					gs, gsa := 0.0, 0.0
					for o := 0; o < O; o++ {
						if f.w.tracked {
							f.w.gs[o] += gv[o] * f.stackS[k]
							f.w.gm[o] += gv[o] * f.stackS[k]
							f.w.ga[o] += ga[o] * f.stackSA[k]
						}
						if f.b.tracked {
							f.b.gs[o] += gv[o]
							f.b.gm[o] += gv[o]
							f.b.ga[o] += ga[o]
						}
						gs += gv[o] * f.w.vals[o]
						gsa += ga[o] * math.Abs(f.w.vals[o])
					}
					for d := range gv {
						gv[d], ga[d] = gs, gsa
					}
					stackDX, stackDXA = gs, gsa
					if !(gsa < 1e200) {
						out.Discard = "stack-out-of-range"
						return out
					}
				}
				for _, p := range []*pobj{f.w, f.b} {
					if p.tracked {
						p.hasGrad, p.spent = true, true
					}
				}
			}
			if f.tracked && len(f.stackS) <= 1 {
				// expected contributions
				for k, p := range []*pobj{f.w, f.b} {
					if !p.tracked {
						continue
					}
					if p.gs == nil {
						p.gs, p.gm, p.ga = make([]float64, O), make([]float64, O), make([]float64, O)
					}
					for o := 0; o < O; o++ {
						for b := 0; b < f.batch; b++ {
							term := G[b*O+o]
							if k == 0 {
								S := 0.0
								for d := 0; d < D; d++ {
									S += f.xv[b*D+d]
								}
								term *= S
							}
							p.gs[o] += term
							p.gm[o] += term / float64(f.batch)
							p.ga[o] += math.Abs(term)
							if k == 0 {
								for d := 0; d < D; d++ {
									p.ga[o] += math.Abs(G[b*O+o] * f.xv[b*D+d])
								}
							}
						}
					}
					p.hasGrad, p.spent = true, true
				}
			}
			// input gradient
			sim.Pause()
			xg := f.x.Gradient()
			wantX := f.tracked && f.xtr
			if (xg != nil) != wantX {
				out.Fail("input-gradient-presence", "%s: input gradient present=%v, expected %v", where, xg != nil, wantX)
				sim.Resume()
				return fin()
			}
			if xg != nil {
				if !sim.ShapeEq(xg.Shape(), []int{f.batch, D}) {
					out.Fail("input-gradient", "%s: input gradient shape %v, expected [%d,%d]", where, xg.Shape(), f.batch, D)
					sim.Resume()
					return fin()
				}
				xgv := sim.Values(xg)
				for b := 0; b < f.batch; b++ {
					want, wa := 0.0, 0.0
					for o := 0; o < O; o++ {
						want += G[b*O+o] * f.w.vals[o]
						wa += math.Abs(G[b*O+o] * f.w.vals[o])
					}
					if len(f.stackS) > 1 {
						want, wa = stackDX, stackDXA*float64(len(f.stackS))
					}
					for d := 0; d < D; d++ {
						if !(math.Abs(xgv[b*D+d]-want) <= 1e-10*wa+1e-300) {
							out.Fail("input-gradient", "%s: dx[%d][%d] = %v, expected sum_o G[b][o]*W[o] = %v (W as it was at forward time)", where, b, d, xgv[b*D+d], want)
							sim.Resume()
							return fin()
						}
					}
				}
			}
			sim.Resume()
			if !checkGrads(where) {
				return fin()
			}
		case "bad":
			before := sim.DeepFPAny(fc)
			if strings.HasPrefix(st.Tag, "cat:") {
				kind := strings.TrimPrefix(st.Tag, "cat:")
				if badIndexOf(kind) < 0 || len(st.I) != 1 {
					out.Discard = "malformed"
					return out
				}
				oracle, msg, _, _ := badVerdict(kind, st.N, *ptr[st.I[0]%2])
				out.Faults["invalid-call/"+kind]++
				if oracle != "" {
					out.Fail(oracle, "%s: %s", where, msg)
					return fin()
				}
				if sim.DeepFPAny(fc) != before {
					out.Fail("rejected-call-changed-state", "%s: a rejected call with parameter %d as operand changed the layer or its parameters", where, st.I[0]%2)
					return fin()
				}
				if !checkPointers(where, false) || !checkGrads(where) {
					return fin()
				}
				break
			}
			var err error
			var y tensor.Tensor
			okx := sim.Leaf([]int{st.N, D}, make([]float64, st.N*D), false)
			switch st.Tag {
			case "zero-inputs":
				y, err = fc.Forward()
			case "two-inputs":
				y, err = fc.Forward(okx, okx)
			case "nil":
				y, err = fc.Forward(nil)
			case "rank1":
				y, err = fc.Forward(sim.Leaf([]int{D}, make([]float64, D), false))
			case "rank3":
				y, err = fc.Forward(sim.Leaf([]int{1, st.N, D}, make([]float64, st.N*D), false))
			default:
				out.Discard = "malformed"
				return out
			}
			out.Faults["invalid-call/"+st.Tag]++
			_ = y // what a rejected call returns besides its error is not judged
			if err == nil {
				out.Fail("invalid-call-accepted", "%s: the invalid Forward returned no error", where)
				return fin()
			}
			if sim.DeepFPAny(fc) != before {
				out.Fail("rejected-call-changed-state", "%s: a rejected Forward changed the layer", where)
				return fin()
			}
		default:
			out.Discard = "malformed"
			return out
		}
	}
	if !checkGrads("end of history") || !checkPointers("end of history", true) {
		return fin()
	}
	out.Nontrivial = swapBetween
	return fin()
}

func (c16) Shrinks(sc *sim.Scenario) []*sim.Scenario {
	var out []*sim.Scenario
	for i := len(sc.Steps) - 1; i >= 0; i-- {
		c := sc.Clone()
		c.Steps = append(c.Steps[:i], c.Steps[i+1:]...)
		out = append(out, c)
	}
	for i, st := range sc.Steps {
		if st.Op == "forward" && st.N > 1 {
			c := sc.Clone()
			c.Steps[i].N = st.N - 1
			out = append(out, c)
		}
	}
	return out
}
