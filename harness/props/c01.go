package props

import (
	"os"
	"fmt"
	"math"
	"sort"

	"github.com/sahandsafizadeh/qeep/tensor"

	"qverif/sim"
)

// C01 — back-propagation yields the total derivative on any operation DAG.
//
// Scenario: Steps = leaf creations (client 99 = shared pool, otherwise
// private) and differentiable operations, already interleaved by the
// call-granularity scheduler; Data["roots"][c] = root of client c;
// Data["bporder"] = order in which the roots are back-propagated;
// Cfg["linear"] = 1 when only linear non-expanding operations occur.
type c01 struct{}

func init() { sim.Register(c01{}) }

const sharedClient = 99

const c01UnfoldLimit = 4096

func (c01) ID() string    { return "C01" }
func (c01) Level() string { return "exploration" }
func (c01) Rule() string {
	return "1-4 builder clients grow operation DAGs over a shared leaf pool (swarm modes: random reuse, diamond chains, ladders, wide fan-outs, linear-only), construction steps interleaved and roots back-propagated in a scheduler-chosen order. Oracles: tree-unfolding twin (every node and leaf recomputed per consumer; gradients of the copies summed by the harness), exact finite differences on linear programs, additivity / order twins over shared leaves, bounded work in simulated steps and in backward-rule applications. Non-trivial: a tracked interior node with >=2 consumers upstream of its root (reconvergence), or >=2 back-propagations meeting at a shared tracked leaf. Distinct: hash of the (client, op, operand-position) sequence plus roots and order. Rare flavours: deep graphs (150-450 levels), wide fan-out (40-400 consumers of one node, balanced-tree combine), constant-constructor leaves, degenerate call forms; rejected calls from the shared invalid-call catalogue on graph tensors in the main run only."
}
func (c01) Assumptions() []string {
	return []string{
		"each single-consumer backward rule is taken as given (its correctness as a vector-Jacobian product is C02/C07, not applicable to this technique): the tree-unfolded twin uses the same rules, so a wrong local rule (e.g. the known averaging of broadcast gradients) is neither flagged nor detectable here",
		"operand values are kept 1e-3 away from ties of ElMax/ElMin/MaxAlong/MinAlong, 0.05-0.1 away from singularities of Log/Div/Pow/Tan/StdAlong, |forward value| <= 1e6",
		"tolerance: |gP - sum gT| <= 1e-8*sum|gT| + 1e-10*max(max_elem(sum|gT|), max over consumers of (their gradient scale * max(1,|operand values|))) per node — the second term covers contraction inside one backward rule (MatMul, Dot, broadcast averaging); NaN on both sides counts as agreement",
		"finite differences only on programs of linear non-expanding operations, where they are exact up to rounding (h = 1024)",
		"step budget per back-propagation: 1000 * (operand edges upstream + 1) * (cost of the most expensive forward operation of the run)",
	}
}
func (c01) Extra() map[string]any {
	e := baseExtra()
	e["fault_kinds"] = []string{"reorder (order of back-propagations over graphs sharing leaves; interleaving of construction; gradients read between back-propagations)", "invalid-call (the shared catalogue of rejected calls, on tensors of the graphs, while they are built and between the back-propagations)"}
	return e
}

/* ---------------- generation ---------------- */

type c01gen struct {
	r        *sim.Rand
	ids      *idAlloc
	pool     *sim.Pool
	shape    map[int][]int
	tree     map[int]float64 // size of the unfolded tree below a node
	o        genOpts
	perCl    map[int][]sim.Step
	nodes    map[int][]avail // per client: own nodes (incl. private leaves)
	shared   []avail
	rejected int
}

func fibreGapOK(vals []float64, shape []int, dim int, wantMax bool) bool {
	// every fibre along dim must have a unique extreme, 1e-3 away from the runner-up
	n := shape[dim]
	if n == 1 {
		return true
	}
	inner := 1
	for i := dim + 1; i < len(shape); i++ {
		inner *= shape[i]
	}
	outer := len(vals) / (n * inner)
	for o := 0; o < outer; o++ {
		for in := 0; in < inner; in++ {
			best, second := math.Inf(-1), math.Inf(-1)
			for k := 0; k < n; k++ {
				v := vals[(o*n+k)*inner+in]
				if !wantMax {
					v = -v
				}
				if v > best {
					best, second = v, best
				} else if v > second {
					second = v
				}
			}
			if best-second < 1e-3 {
				return false
			}
		}
	}
	return true
}

// differentiableAt decides whether the accepted forward op is safely away
// from non-differentiable points and of sane magnitude.
func differentiableAt(st sim.Step, in []tensor.Tensor, res tensor.Tensor) bool {
	for _, v := range sim.Values(res) {
		if math.IsNaN(v) || math.IsInf(v, 0) || math.Abs(v) > 1e6 {
			return false
		}
	}
	switch st.Op {
	case "elmax", "elmin":
		a, b := sim.Values(in[0]), sim.Values(in[1])
		for i := range a {
			if math.Abs(a[i]-b[i]) < 1e-3 {
				return false
			}
		}
	case "maxalong", "minalong":
		return fibreGapOK(sim.Values(in[0]), in[0].Shape(), st.I[0], st.Op == "maxalong")
	case "log":
		for _, v := range sim.Values(in[0]) {
			if v < 0.05 {
				return false
			}
		}
	case "div":
		for _, v := range sim.Values(in[1]) {
			if math.Abs(v) < 0.1 {
				return false
			}
		}
	case "pow":
		e := st.F[0]
		for _, v := range sim.Values(in[0]) {
			if e != math.Trunc(e) && v < 0.05 {
				return false
			}
			if e < 0 && math.Abs(v) < 0.1 {
				return false
			}
		}
	case "tan":
		for _, v := range sim.Values(in[0]) {
			if math.Abs(math.Cos(v)) < 0.1 {
				return false
			}
		}
	case "stdalong":
		if in[0].Shape()[st.I[0]] > 1 {
			for _, v := range sim.Values(res) {
				if v < 0.01 {
					return false
				}
			}
		}
	}
	return true
}

func (g *c01gen) avail(client int) []avail {
	return append(append([]avail{}, g.shared...), g.nodes[client]...)
}

// try executes candidate steps on the shadow pool; accepted steps are
// recorded for the client.
func (g *c01gen) try(client int, steps []sim.Step) (avail, bool) {
	if len(steps) == 0 {
		return avail{}, false
	}
	var added []int
	rollback := func() {
		for _, id := range added {
			delete(g.pool.T, id)
		}
		g.rejected++
	}
	var last avail
	for i, st := range steps {
		sh := st
		sh.B = false
		res := g.pool.Apply(sh)
		if res.Err != nil || res.T == nil {
			rollback()
			return avail{}, false
		}
		added = append(added, st.Out)
		if i == len(steps)-1 && sim.IsTensorOp(st.Op) {
			in := make([]tensor.Tensor, len(st.In))
			for k, id := range st.In {
				in[k] = g.pool.T[id]
			}
			if !differentiableAt(st, in, res.T) {
				rollback()
				return avail{}, false
			}
		}
		last = avail{st.Out, res.T.Shape()}
	}
	for _, st := range steps {
		t := g.pool.T[st.Out]
		g.shape[st.Out] = t.Shape()
		ts := 1.0
		for _, id := range st.In {
			ts += g.tree[id]
		}
		g.tree[st.Out] = ts
		g.perCl[client] = append(g.perCl[client], st)
		g.nodes[client] = append(g.nodes[client], avail{st.Out, t.Shape()})
	}
	return last, true
}

func (g *c01gen) unary(client int, x avail, linear bool) (avail, bool) {
	for attempt := 0; attempt < 4; attempt++ {
		st := sim.Step{C: client, In: []int{x.ID}}
		ops := []string{"scale", "scale", "sin", "tanh", "cos", "exp", "sinh"}
		if linear {
			ops = []string{"scale"}
		}
		st.Op = ops[g.r.Intn(len(ops))]
		if st.Op == "scale" {
			f := []float64{0.5, -0.5, 0.25, -0.25, 1, -1}
			st.F = []float64{f[g.r.Intn(len(f))]}
		}
		st.Out = g.ids.New()
		if a, ok := g.try(client, []sim.Step{st}); ok {
			return a, true
		}
	}
	return avail{}, false
}

func (g *c01gen) binary(client int, a, b avail, linear bool) (avail, bool) {
	for attempt := 0; attempt < 4; attempt++ {
		ops := []string{"add", "sub", "add", "mul", "elmax", "elmin"}
		if linear {
			ops = []string{"add", "sub"}
		}
		st := sim.Step{C: client, Op: ops[g.r.Intn(len(ops))], In: []int{a.ID, b.ID}, Out: g.ids.New()}
		if r, ok := g.try(client, []sim.Step{st}); ok {
			return r, true
		}
	}
	return avail{}, false
}

func (c01) Generate(r *sim.Rand, tier string) *sim.Scenario {
	thorough := tier == "thorough"
	sc := &sim.Scenario{Cfg: map[string]float64{}, Data: map[string][]float64{}}
	g := &c01gen{r: r, ids: &idAlloc{}, pool: sim.NewPool(), shape: map[int][]int{}, tree: map[int]float64{},
		perCl: map[int][]sim.Step{}, nodes: map[int][]avail{}}
	mode := r.Intn(8)
	linear := mode >= 5
	nclients := []int{1, 1, 1, 1, 2, 2, 3, 4}[r.Intn(8)]
	g.o = genOpts{MaxElems: 64, MaxRank: 4, MaxDim: 4, Linear: linear, NoExpand: !linear && r.Bool(0.4),
		PSynth: []float64{0.1, 0.3, 0.6}[r.Intn(3)], PTracked: []float64{0.5, 0.9, 1}[r.Intn(3)]}
	maxOps := 24
	maxDepth := 30
	if thorough {
		g.o.MaxElems, g.o.MaxDim = 144, 6
		maxOps, maxDepth = 50, 60
	}
	wide := false
	pWide, pDeep, pChain := 0.003, 0.003, 0.0004
	switch os.Getenv("QV_C01_FLAVOUR") { // soak aid: force a flavour
	case "wide":
		pWide = 1
	case "deep":
		pWide, pDeep = 0, 1
	case "chain":
		pWide, pDeep, pChain = 0, 0, 1
	}
	if r.Bool(pWide) {
		wide = true
		sc.Cfg["wide"] = 1
		mode = 3
		linear = false
		nclients = 1
		maxOps = 6
		g.o = genOpts{MaxElems: 6, MaxRank: 2, MaxDim: 3, Linear: true, PSynth: 0.1, PTracked: 1}
	} else if r.Bool(pDeep) {
		// a deep graph: hundreds of levels of a linear diamond chain / ladder on
		// small tensors (bookkeeping that degrades with depth; 2^depth paths)
		mode = []int{6, 7}[r.Intn(2)]
		linear = true
		nclients = 1
		maxDepth = r.Range(150, 450)
		maxOps = 12
		// hundreds of levels of additions and subtractions cancel again and again:
		// what remains at a node can be pure rounding residue of intermediate
		// terms a million times larger, which the cone-split twin's comparison
		// scale (terms at the node itself) does not see; the deep flavour is
		// decided by the exact finite differences of the linear program, the
		// step budget and the presence / shape oracles
		sc.Cfg["deep"] = 1
		g.o = genOpts{MaxElems: 6, MaxRank: 2, MaxDim: 3, Linear: true, PSynth: 0.1, PTracked: 1}
	}
	chain := 0
	if !wide && sc.Cfg["deep"] != 1 && r.Bool(pChain) {
		// a very long chain of scalar operations (a recurrence unrolled over
		// thousands of steps): depth far beyond any fixed recursion or walk limit
		chain = r.Range(10050, 13000)
		mode, linear, nclients, maxOps = 5, true, 1, 1
		sc.Cfg["deep"] = 1
		g.o = genOpts{MaxElems: 1, MaxRank: 0, MaxDim: 1, Linear: true, PSynth: 0, PTracked: 1}
	}
	// size swarm: now and then long dimensions / many concat operands / rank 5
	switch r.Intn(8) {
	case 0:
		g.o.MaxDim, g.o.MaxElems = 19, 160
	case 1:
		g.o.MaxRank = 5
	}
	pReuse := []float64{0.3, 0.6, 0.9}[r.Intn(3)]
	sc.Cfg["clients"] = float64(nclients)
	sc.Cfg["mode"] = float64(mode)
	if linear {
		sc.Cfg["linear"] = 1
	}
	// shared leaves
	nshared := r.Range(1, 4)
	structured := mode == 1 || mode == 2 || mode == 3 || mode == 6 || mode == 7
	var sshape []int
	if structured {
		sshape = randShape(r, 2, 3, 6)
	}
	var sharedSteps []sim.Step
	for i := 0; i < nshared; i++ {
		shp := sshape
		if !structured {
			shp = randShape(r, minInt(g.o.MaxRank, 4), g.o.MaxDim, g.o.MaxElems)
		}
		st := leafStep(r, g.ids, sharedClient, shp, r.Bool(g.o.PTracked), false)
		res := g.pool.Apply(st)
		if res.Err != nil {
			sim.Bug("shared leaf creation failed: %v", res.Err)
		}
		g.shape[st.Out] = res.T.Shape()
		g.tree[st.Out] = 1
		g.shared = append(g.shared, avail{st.Out, res.T.Shape()})
		sharedSteps = append(sharedSteps, st)
	}
	for c := 0; c < nclients; c++ {
		g.o.Client = c
		start := g.shared[r.Intn(len(g.shared))]
		if chain > 0 {
			x := start
			for i := 0; i < chain; i++ {
				y, ok := g.unary(c, x, true)
				if !ok {
					break
				}
				x = y
			}
		}
		switch mode {
		case 1, 6: // chain of diamonds
			k := r.Range(1, maxDepth)
			x := start
			for i := 0; i < k; i++ {
				a, ok1 := g.unary(c, x, linear)
				if !ok1 {
					break
				}
				b, ok2 := g.unary(c, x, linear)
				if !ok2 {
					break
				}
				y, ok3 := g.binary(c, a, b, linear)
				if !ok3 {
					break
				}
				x = y
			}
		case 2, 7: // ladder
			k := r.Range(1, maxDepth/2)
			a, b := start, g.shared[r.Intn(len(g.shared))]
			for i := 0; i < k; i++ {
				fa, ok1 := g.unary(c, a, linear)
				fb, ok2 := g.unary(c, b, linear)
				if !ok1 || !ok2 {
					break
				}
				na, ok3 := g.binary(c, fa, b, linear)
				nb, ok4 := g.binary(c, fb, a, linear)
				if !ok3 || !ok4 {
					break
				}
				a, b = na, nb
			}
			g.binary(c, a, b, linear)
		case 3: // wide fan-out, then combine
			w := r.Range(2, 8)
			src := start
			if wide {
				// one intermediate with hundreds of consumers, combined by a balanced
				// tree: hundreds of contexts are ready at the same time
				w = r.Range(40, 400)
				if h, ok := g.unary(c, start, true); ok {
					src = h
				}
			}
			var ys []avail
			for j := 0; j < w; j++ {
				if y, ok := g.unary(c, src, wide); ok {
					ys = append(ys, y)
				}
			}
			if wide && len(ys) >= 70 && len(src.Shape) >= 1 && r.Bool(0.5) {
				// half of the wide graphs: the consumers are first joined by Concat
				// lists of 65-130 operands each (then reduced along the concat dimension)
				var joined []avail
				for len(ys) > 0 {
					k := r.Range(65, 130)
					if k > len(ys) || len(ys)-k < 20 {
						k = len(ys)
					}
					st := sim.Step{C: c, Op: "concat", I: []int{0}, Out: g.ids.New()}
					for _, y := range ys[:k] {
						st.In = append(st.In, y.ID)
					}
					ys = ys[k:]
					cat, ok := g.try(c, []sim.Step{st})
					if !ok {
						break
					}
					red, ok := g.try(c, []sim.Step{{C: c, Op: "sumalong", In: []int{cat.ID}, I: []int{0}, Out: g.ids.New()}})
					if !ok {
						break
					}
					joined = append(joined, red)
				}
				ys = joined
			}
			for wide && len(ys) > 1 {
				var next []avail
				for i := 0; i+1 < len(ys); i += 2 {
					if y, ok := g.binary(c, ys[i], ys[i+1], true); ok {
						next = append(next, y)
					}
				}
				if len(ys)%2 == 1 {
					next = append(next, ys[len(ys)-1])
				}
				if len(next) >= len(ys) || len(next) == 0 {
					break
				}
				ys = next
			}
			for len(ys) > 1 {
				y, ok := g.binary(c, ys[0], ys[1], false)
				if !ok {
					break
				}
				ys = append([]avail{y}, ys[2:]...)
			}
		}
		// random operations with reuse
		nops := r.Range(1, maxOps)
		if structured {
			nops = r.Range(0, maxOps/3)
		}
		if chain > 0 {
			nops = 0
		}
		for k, fails := 0, 0; k < nops && fails < 60; {
			av := g.avail(c)
			var x avail
			own := g.nodes[c]
			if len(own) > 0 && r.Bool(pReuse) {
				x = own[r.Intn(len(own))]
			} else {
				x = av[r.Intn(len(av))]
			}
			steps := propose(r, g.ids, av, x, &g.o)
			if _, ok := g.try(c, steps); ok {
				k++
			} else {
				fails++
			}
		}
	}
	// interleave construction (call-granularity scheduler choice, made explicit)
	sc.Steps = append(sc.Steps, sharedSteps...)
	pos := make([]int, nclients)
	for {
		var live []int
		for c := 0; c < nclients; c++ {
			if pos[c] < len(g.perCl[c]) {
				live = append(live, c)
			}
		}
		if len(live) == 0 {
			break
		}
		c := live[r.Intn(len(live))]
		// run a burst
		burst := r.Range(1, 6)
		for b := 0; b < burst && pos[c] < len(g.perCl[c]); b++ {
			sc.Steps = append(sc.Steps, g.perCl[c][pos[c]])
			pos[c]++
		}
	}
	// roots
	roots := make([]float64, nclients)
	for c := 0; c < nclients; c++ {
		own := g.nodes[c]
		var opNodes []avail
		for _, st := range g.perCl[c] {
			if sim.IsTensorOp(st.Op) {
				opNodes = append(opNodes, avail{ID: st.Out})
			}
		}
		switch {
		case len(opNodes) > 0 && r.Bool(0.75):
			roots[c] = float64(opNodes[len(opNodes)-1].ID)
		case len(opNodes) > 0 && r.Bool(0.8):
			roots[c] = float64(opNodes[r.Intn(len(opNodes))].ID)
		case len(own) > 0 && r.Bool(0.5):
			roots[c] = float64(own[r.Intn(len(own))].ID)
		default:
			roots[c] = float64(g.shared[r.Intn(len(g.shared))].ID)
		}
	}
	sc.Data["roots"] = roots
	if nclients >= 2 && r.Bool(0.5) {
		sc.Cfg["peek"] = 1
	}
	var order []float64
	for _, c := range r.Perm(nclients) {
		order = append(order, float64(c))
	}
	sc.Data["bporder"] = order
	if r.Bool(0.4) && len(sc.Steps) > 0 {
		// fault invalid-call: rejected calls while the graphs are built and between
		// the back-propagations, on tensors of the graphs
		var bad []float64
		for i, nb := 0, r.Range(1, 3); i < nb; i++ {
			at := r.Intn(len(sc.Steps))
			tgt := sc.Steps[r.Intn(at+1)].Out
			pos := float64(sc.Steps[at].Out)
			if nclients >= 2 && r.Bool(0.3) {
				pos = float64(-1 - r.Intn(nclients-1))
				tgt = sc.Steps[r.Intn(len(sc.Steps))].Out
			}
			tag, n := pickBad(r, g.shape[tgt])
			bad = append(bad, pos, float64(badIndexOf(tag)), float64(n), float64(tgt))
		}
		sc.Data["bad"] = bad
	}
	return sc
}

/* ---------------- execution ---------------- */

type gradRec struct {
	shape []int
	vals  []float64
}

func readGrad(t tensor.Tensor) *gradRec {
	g := t.Gradient()
	if g == nil {
		return nil
	}
	return &gradRec{g.Shape(), sim.Values(g)}
}

type c01prog struct {
	sc      *sim.Scenario
	byID    map[int]sim.Step
	order   []int // node ids in step order
	tracked map[int]bool
	roots   []int
	bporder []int
	badNow  bool // the build in progress performs the scenario's rejected calls
}

func c01parse(sc *sim.Scenario) (*c01prog, string) {
	p := &c01prog{sc: sc, byID: map[int]sim.Step{}, tracked: map[int]bool{}}
	for _, st := range sc.Steps {
		if st.Out < 0 {
			return nil, "malformed"
		}
		if _, dup := p.byID[st.Out]; dup {
			return nil, "malformed"
		}
		for _, id := range st.In {
			if _, ok := p.byID[id]; !ok {
				return nil, "dangling"
			}
		}
		switch {
		case sim.IsCreator(st.Op):
			p.tracked[st.Out] = st.B
		case sim.IsTensorOp(st.Op) && !sim.IsComparison(st.Op):
			tr := false
			for _, id := range st.In {
				tr = tr || p.tracked[id]
			}
			p.tracked[st.Out] = tr
		default:
			return nil, "malformed"
		}
		p.byID[st.Out] = st
		p.order = append(p.order, st.Out)
	}
	nc := sc.CfgInt("clients")
	rs := sc.Data["roots"]
	if nc < 1 || len(rs) < nc {
		return nil, "malformed"
	}
	for c := 0; c < nc; c++ {
		id := int(rs[c])
		st, ok := p.byID[id]
		if !ok {
			return nil, "dangling"
		}
		if st.C != c && st.C != sharedClient {
			return nil, "malformed"
		}
		p.roots = append(p.roots, id)
	}
	seen := map[int]bool{}
	for _, f := range sc.Data["bporder"] {
		c := int(f)
		if c < 0 || c >= nc || seen[c] {
			return nil, "malformed"
		}
		seen[c] = true
		p.bporder = append(p.bporder, c)
	}
	if len(p.bporder) != nc {
		return nil, "malformed"
	}
	// graphs may share leaves only
	for _, st := range sc.Steps {
		for _, id := range st.In {
			o := p.byID[id]
			if o.C != st.C && !(o.C == sharedClient && sim.IsCreator(o.Op)) {
				return nil, "malformed"
			}
		}
	}
	return p, ""
}

// reach returns the nodes that must receive a gradient from root (model).
func (p *c01prog) reach(root int) map[int]bool {
	out := map[int]bool{}
	if !p.tracked[root] {
		return out
	}
	var walk func(id int)
	walk = func(id int) {
		if out[id] {
			return
		}
		out[id] = true
		for _, o := range p.byID[id].In {
			if p.tracked[o] {
				walk(o)
			}
		}
	}
	walk(root)
	return out
}

// upstream returns all nodes the root was computed from (tracked or not) and
// the number of operand edges among them.
func (p *c01prog) upstream(root int) (map[int]bool, int) {
	out := map[int]bool{}
	edges := 0
	var walk func(id int)
	walk = func(id int) {
		if out[id] {
			return
		}
		out[id] = true
		for _, o := range p.byID[id].In {
			edges++
			walk(o)
		}
	}
	walk(root)
	return out, edges
}

func (p *c01prog) treeSize(root int) float64 {
	memo := map[int]float64{}
	var f func(id int) float64
	f = func(id int) float64 {
		if v, ok := memo[id]; ok {
			return v
		}
		s := 1.0
		for _, o := range p.byID[id].In {
			s += f(o)
		}
		memo[id] = s
		return s
	}
	return f(root)
}

// runDAG builds the whole program (or only the given clients) and
// back-propagates the given clients' roots in the given order.
type dagRun struct {
	pool     *sim.Pool
	cmax     uint64
	fwdSteps uint64
	err      string // forward error (scenario invalid on this code)
	badOr    string // a rejected call misbehaved on its own (oracle, message)
	badMsg   string
	nbad     map[string]int
}

func (p *c01prog) build(only map[int]bool, track bool, perturb func(id int, flat []float64) []float64) *dagRun {
	return p.buildX(only, track, perturb, nil)
}

// buildX is build with an optional leaf split: when split != nil every use of
// a shared leaf by an operation gets a fresh copy of that leaf (recorded in
// split[leaf]), so that each copy's gradient is exactly one edge's
// contribution and nothing is accumulated on the leaf by the library.
func (p *c01prog) buildX(only map[int]bool, track bool, perturb func(id int, flat []float64) []float64, split map[int][]tensor.Tensor) *dagRun {
	run := &dagRun{pool: sim.NewPool()}
	for _, st := range p.sc.Steps {
		if only != nil && st.C != sharedClient && !only[st.C] {
			continue
		}
		s := st
		if !track {
			s.B = false
		}
		if perturb != nil && sim.IsCreator(s.Op) && s.Op == "tensorof" {
			s.F = perturb(s.Out, s.F)
		}
		var res sim.Result
		used, _ := sim.WithBudget(0, func() {
			if split == nil || len(s.In) == 0 {
				res = run.pool.Apply(s)
				return
			}
			in := make([]tensor.Tensor, len(s.In))
			for i, id := range s.In {
				ls := p.byID[id]
				if ls.C == sharedClient && sim.IsCreator(ls.Op) {
					if !track {
						ls.B = false
					}
					cp := sim.ApplyOn(ls, nil)
					if cp.Err != nil {
						res.Err = cp.Err
						return
					}
					split[id] = append(split[id], cp.T)
					in[i] = cp.T
				} else {
					in[i] = run.pool.T[id]
				}
			}
			res = sim.ApplyOn(s, in)
			if res.Err == nil && res.T != nil {
				run.pool.T[s.Out] = res.T
			}
		})
		if used > run.cmax {
			run.cmax = used
		}
		run.fwdSteps += used
		if res.Err != nil || res.T == nil {
			run.err = fmt.Sprintf("step %s: %v", s.String(), res.Err)
			return run
		}
		if p.badNow {
			p.badCalls(run, float64(s.Out))
			if run.badOr != "" {
				return run
			}
		}
	}
	return run
}

// badCalls performs the scenario's rejected calls scheduled for position pos
// (a node id: right after that node was built; -1-k: right after the k-th
// back-propagation). Data["bad"] holds (position, kind, variant, target node).
func (p *c01prog) badCalls(run *dagRun, pos float64) {
	b := p.sc.Data["bad"]
	for i := 0; i+3 < len(b); i += 4 {
		if b[i] != pos {
			continue
		}
		k := int(b[i+1])
		x, ok := run.pool.T[int(b[i+3])]
		if k < 0 || k >= len(badKinds) || !ok {
			continue
		}
		oracle, msg, _, _ := badVerdict(badKinds[k], int(b[i+2]), x)
		if run.nbad == nil {
			run.nbad = map[string]int{}
		}
		run.nbad["invalid-call/"+badKinds[k]]++
		if oracle != "" {
			run.badOr, run.badMsg = oracle, fmt.Sprintf("rejected call after position %v on node %d: %s", pos, int(b[i+3]), msg)
			return
		}
	}
}

// contractionFloors: a backward rule may contract (MatMul, Dot, the averaging
// of a broadcast gradient): its output can be a rounding residue of terms of
// magnitude |consumer gradient| * |operand values|. That magnitude, per
// consumer, is the floor of the comparison scale for the operand; a
// consumer's own floor (its gradient may itself be a residue) is passed on,
// so the steps are walked backwards (consumers come after their operands).
func contractionFloors(steps []sim.Step, pool *sim.Pool, have map[int]bool, abs map[int][]float64) map[int]float64 {
	vmax := func(id int) float64 {
		t, ok := pool.T[id]
		if !ok {
			return 0
		}
		m := 0.0
		for _, v := range sim.Values(t) {
			if a := math.Abs(v); a > m {
				m = a
			}
		}
		return m
	}
	floor := map[int]float64{}
	for si := len(steps) - 1; si >= 0; si-- {
		st := steps[si]
		if !have[st.Out] || len(st.In) == 0 {
			continue
		}
		sm := floor[st.Out]
		for _, a := range abs[st.Out] {
			if a > sm && !math.IsInf(a, 0) {
				sm = a
			}
		}
		v := 1.0
		for _, o := range st.In {
			if m := vmax(o); m > v {
				v = m
			}
		}
		if m := vmax(st.Out); m > v {
			v = m
		}
		if st.Op == "div" {
			v *= 100
		}
		for _, o := range st.In {
			if f := sm * v; f > floor[o] {
				floor[o] = f
			}
		}
	}
	return floor
}

// coneSplitTwin: the partial unfolding that scales to any depth. Every use of
// node n as an operand gets its own recomputation of everything n depends on
// (its cone), so nothing is accumulated on n by the library; the harness adds
// up the gradients of the copies. Returns sum / abs-sum per node id.
func (p *c01prog) coneSplitTwin(c int, n int) (sum, abs map[int][]float64, have map[int]bool, pool *sim.Pool, fail string) {
	cone, _ := p.upstream(n)
	var steps []sim.Step
	for _, st := range p.sc.Steps {
		if st.C == c || st.C == sharedClient {
			steps = append(steps, st)
		}
	}
	copies := map[int][]tensor.Tensor{}
	buildCone := func() (map[int]tensor.Tensor, bool) {
		m := map[int]tensor.Tensor{}
		for _, st := range steps {
			if !cone[st.Out] {
				continue
			}
			in := make([]tensor.Tensor, len(st.In))
			for i, id := range st.In {
				in[i] = m[id]
			}
			res := sim.ApplyOn(st, in)
			if res.Err != nil || res.T == nil {
				fail = fmt.Sprintf("cone-split twin: step %s failed: %v", st.String(), res.Err)
				return nil, false
			}
			m[st.Out] = res.T
			copies[st.Out] = append(copies[st.Out], res.T)
		}
		return m, true
	}
	base, ok := buildCone()
	if !ok {
		return
	}
	pool = sim.NewPool()
	for id, t := range base {
		pool.T[id] = t
	}
	for _, st := range steps {
		if cone[st.Out] {
			continue
		}
		in := make([]tensor.Tensor, len(st.In))
		for i, id := range st.In {
			if id == n {
				cp, ok := buildCone()
				if !ok {
					return
				}
				in[i] = cp[n]
			} else {
				in[i] = pool.T[id]
			}
		}
		res := sim.ApplyOn(st, in)
		if res.Err != nil || res.T == nil {
			fail = fmt.Sprintf("cone-split twin: step %s failed: %v", st.String(), res.Err)
			return
		}
		pool.T[st.Out] = res.T
		copies[st.Out] = append(copies[st.Out], res.T)
	}
	if err := tensor.BackPropagate(pool.T[p.roots[c]]); err != nil {
		fail = fmt.Sprintf("cone-split twin: BackPropagate returned error: %v", err)
		return
	}
	sum, abs, have = map[int][]float64{}, map[int][]float64{}, map[int]bool{}
	ids := make([]int, 0, len(copies))
	for id := range copies {
		ids = append(ids, id)
	}
	sort.Ints(ids)
	for _, id := range ids {
		for _, cp := range copies[id] {
			g := cp.Gradient()
			if g == nil {
				continue
			}
			vals := sim.Values(g)
			if !have[id] {
				have[id] = true
				sum[id] = make([]float64, len(vals))
				abs[id] = make([]float64, len(vals))
			}
			if len(vals) != len(sum[id]) {
				continue
			}
			for i, v := range vals {
				sum[id][i] += v
				abs[id][i] += math.Abs(v)
			}
		}
	}
	return
}

type cmpStats struct{ checked, nonzero int }

// compareGrad checks got against the sum of parts (with absolute sum as scale).
func compareGrad(got *gradRec, sum, abs []float64) (bool, string) {
	return compareGradFloor(got, sum, abs, 0)
}

// compareGradFloor additionally takes the magnitude of the terms that entered
// the contracting backward rules feeding this node (see the caller).
func compareGradFloor(got *gradRec, sum, abs []float64, floor float64) (bool, string) {
	if len(got.vals) != len(sum) {
		return false, fmt.Sprintf("%d elements, expected %d", len(got.vals), len(sum))
	}
	smax := 0.0
	for _, a := range abs {
		if !math.IsNaN(a) && !math.IsInf(a, 0) && a > smax {
			smax = a
		}
	}
	if floor > smax && !math.IsInf(floor, 0) && !math.IsNaN(floor) {
		smax = floor
	}
	for i := range sum {
		g, w := got.vals[i], sum[i]
		if math.IsNaN(g) && math.IsNaN(w) {
			continue
		}
		if math.IsInf(w, 0) || math.IsInf(g, 0) {
			if g == w {
				continue
			}
			if math.IsNaN(g) || math.IsNaN(w) || math.IsInf(abs[i], 0) {
				continue // overflow region: no judgement
			}
		}
		tol := 1e-8*abs[i] + 1e-10*smax + 1e-300
		if !(math.Abs(g-w) <= tol) {
			return false, fmt.Sprintf("element %d: got %v, expected %v (scale %v)", i, g, w, abs[i])
		}
	}
	return true, ""
}

func (prop c01) Execute(sc *sim.Scenario) *sim.Outcome {
	out := sim.NewOutcome()
	start := sim.Now()
	lh := sim.NewHash()
	sig := sim.NewHash()
	p, bad := c01parse(sc)
	if bad != "" {
		out.Discard = bad
		return out
	}
	for _, st := range sc.Steps {
		sig = sig.Int(st.C).Str(st.Op)
		for _, id := range st.In {
			sig = sig.Int(id)
		}
	}
	for _, rt := range p.roots {
		sig = sig.Int(rt)
	}
	for _, c := range p.bporder {
		sig = sig.Int(c)
	}
	fin := func() *sim.Outcome { return finish(out, lh, sig, start) }
	for _, st := range sc.Steps {
		out.Probes["op/"+st.Op]++
	}

	/* 1. the program itself */
	p.badNow = len(sc.Data["bad"]) >= 4
	main := p.build(nil, true, nil)
	p.badNow = false
	if main.err != "" {
		out.Discard = "forward-error"
		return out
	}
	badDone := func() bool {
		for k, n := range main.nbad {
			out.Faults[k] += n
		}
		main.nbad = nil
		if main.badOr != "" {
			out.Fail(main.badOr, "%s", main.badMsg)
			return false
		}
		return true
	}
	if !badDone() {
		return fin()
	}
	expect := map[int]bool{}
	meet := map[int]int{}
	reconv := false
	for _, c := range p.bporder {
		rc := p.reach(p.roots[c])
		cons := map[int]int{}
		for id := range rc {
			expect[id] = true
			if sim.IsCreator(p.byID[id].Op) {
				meet[id]++
			}
			for _, o := range p.byID[id].In {
				if rc[o] {
					cons[o]++
				}
			}
		}
		for id, n := range cons {
			if n >= 2 && !sim.IsCreator(p.byID[id].Op) {
				reconv = true
			}
		}
	}
	shareMeet := false
	for _, n := range meet {
		if n >= 2 {
			shareMeet = true
		}
	}
	if reconv {
		out.Probes["reconvergent-interior-node"]++
	}
	if shareMeet {
		out.Probes["second-backprop-reached-shared-leaf"]++
	}
	out.Nontrivial = reconv || shareMeet
	haveRules := sim.HaveGradRuleSites()
	for bpi, c := range p.bporder {
		root := p.roots[c]
		_, edges := p.upstream(root)
		budget := 1000 * uint64(edges+1) * (main.cmax + 1)
		if !sim.Instrumented() {
			budget = 0
		}
		r0 := sim.ClassCount(sim.ClassGradRule)
		var err error
		used, ex := sim.WithBudget(budget, func() { err = tensor.BackPropagate(main.pool.T[root]) })
		lh = lh.Int(c).U64(used)
		if ex != nil {
			out.Fail("step-budget", "BackPropagate(root %d of client %d): %v; graph has %d operand edges upstream, most expensive forward op cost %d steps", root, c, ex, edges, main.cmax)
			return fin()
		}
		if err != nil {
			out.Fail("backprop-error", "BackPropagate(root %d of client %d) returned error: %v", root, c, err)
			return fin()
		}
		if haveRules {
			apps := sim.ClassCount(sim.ClassGradRule) - r0
			if apps > uint64(4*(edges+1)) {
				out.Fail("rule-applications", "BackPropagate(root %d): %d backward-rule applications for %d operand edges (bound 4*(edges+1))", root, apps, edges)
				return fin()
			}
			if apps > 0 {
				out.Probes["rule-probe-available"] = 1
			}
		}
		if sc.Cfg["peek"] == 1 {
			// a caller looking at the gradients between two back-propagations
			// (a pure read) must not change what the next one leaves behind
			sim.Pause()
			for _, id := range p.order {
				readGrad(main.pool.T[id])
			}
			sim.Resume()
			out.Faults["reorder/gradients-read-between-backprops"]++
		}
		if len(sc.Data["bad"]) >= 4 {
			sim.Pause()
			p.badCalls(main, float64(-1-bpi))
			sim.Resume()
			if !badDone() {
				return fin()
			}
		}
		if main.cmax > 0 {
			ratio := int(used / (uint64(edges+1) * main.cmax))
			if ratio > out.Probes["max-bp-steps-per-edge-cmax"] {
				out.Probes["max-bp-steps-per-edge-cmax"] = ratio
			}
		}
	}
	sim.Pause()
	defer sim.Resume()
	gotGrad := map[int]*gradRec{}
	for _, id := range p.order {
		t := main.pool.T[id]
		g := readGrad(t)
		gotGrad[id] = g
		if g != nil {
			lh = lh.Int(id)
			for _, v := range g.vals {
				lh = lh.F64(v)
			}
		}
		if (g != nil) != expect[id] {
			if g == nil {
				out.Fail("grad-presence", "node %d (%s, tracked, upstream of a root) received no gradient", id, p.byID[id].Op)
			} else {
				out.Fail("grad-presence", "node %d (%s) received a gradient although it is untracked or not upstream of any root", id, p.byID[id].Op)
			}
			return fin()
		}
		if g != nil && !sim.ShapeEq(g.shape, t.Shape()) {
			out.Fail("grad-shape", "node %d (%s) has shape %v but its gradient has shape %v", id, p.byID[id].Op, t.Shape(), g.shape)
			return fin()
		}
	}
	// the root's gradient is all ones when nothing else feeds it
	for _, c := range p.bporder {
		root := p.roots[c]
		if !p.tracked[root] || sim.IsCreator(p.byID[root].Op) {
			continue
		}
		isOperand := false
		for _, st := range sc.Steps {
			for _, id := range st.In {
				if id == root {
					isOperand = true
				}
			}
		}
		if isOperand {
			continue
		}
		for _, v := range gotGrad[root].vals {
			if v != 1 {
				out.Fail("root-seed", "root %d gradient element is %v, expected 1", root, v)
				return fin()
			}
		}
	}

	/* 2. tree-unfolding twin */
	sum := map[int][]float64{}
	abs := map[int][]float64{}
	have := map[int]bool{}
	unfoldedAll := true
	for _, c := range p.bporder {
		root := p.roots[c]
		if p.treeSize(root) > c01UnfoldLimit {
			unfoldedAll = false
			out.Probes["unfold-skipped-too-many-paths"]++
			continue
		}
		copies := map[int][]tensor.Tensor{}
		var fail string
		var buildT func(id int) tensor.Tensor
		buildT = func(id int) tensor.Tensor {
			st := p.byID[id]
			in := make([]tensor.Tensor, len(st.In))
			for i, o := range st.In {
				in[i] = buildT(o)
				if in[i] == nil {
					return nil
				}
			}
			res := sim.ApplyOn(st, in)
			if res.Err != nil || res.T == nil {
				fail = fmt.Sprintf("unfolded twin: step %s failed: %v", st.String(), res.Err)
				return nil
			}
			copies[id] = append(copies[id], res.T)
			return res.T
		}
		rt := buildT(root)
		if rt == nil {
			out.Fail("twin-forward-error", "%s", fail)
			return fin()
		}
		if err := tensor.BackPropagate(rt); err != nil {
			out.Fail("backprop-error", "unfolded twin (a tree, no reconvergence) of client %d: BackPropagate returned error: %v", c, err)
			return fin()
		}
		ids := make([]int, 0, len(copies))
		for id := range copies {
			ids = append(ids, id)
		}
		sort.Ints(ids)
		for _, id := range ids {
			for _, cp := range copies[id] {
				g := cp.Gradient()
				if g == nil {
					continue
				}
				vals := sim.Values(g)
				if !have[id] {
					have[id] = true
					sum[id] = make([]float64, len(vals))
					abs[id] = make([]float64, len(vals))
				}
				if len(vals) != len(sum[id]) {
					// shape trouble is reported against the program's own gradient below
					continue
				}
				for i, v := range vals {
					sum[id][i] += v
					abs[id][i] += math.Abs(v)
				}
			}
		}
		out.Probes["unfolded-programs"]++
	}
	if unfoldedAll {
		floor := contractionFloors(sc.Steps, main.pool, have, abs)
		for _, id := range p.order {
			g := gotGrad[id]
			if g == nil {
				if have[id] {
					out.Fail("unfold-mismatch", "node %d (%s): no gradient in the program, but its unfolded copies receive one", id, p.byID[id].Op)
					return fin()
				}
				continue
			}
			if !have[id] {
				out.Fail("unfold-mismatch", "node %d (%s): gradient in the program, none on any unfolded copy", id, p.byID[id].Op)
				return fin()
			}
			if ok, why := compareGradFloor(g, sum[id], abs[id], floor[id]); !ok {
				out.Fail("unfold-mismatch", "node %d (%s, shape %v): gradient differs from the sum over its %s: %s", id, p.byID[id].Op, g.shape, "tree-unfolded copies", why)
				return fin()
			}
		}
	}

	/* 2b. cone-split twin: partial unfolding that scales to any depth */
	if len(p.roots) == 1 && p.tracked[p.roots[0]] && (!unfoldedAll || sc.Seed%4 == 0) && sc.Cfg["deep"] != 1 && (len(sc.Steps) <= 200 || sc.Cfg["wide"] == 1) {
		rc := p.reach(p.roots[0])
		cons := map[int]int{}
		for _, st := range sc.Steps {
			if !rc[st.Out] {
				continue
			}
			for _, o := range st.In {
				if rc[o] {
					cons[o]++
				}
			}
		}
		var multi []int
		for id, k := range cons {
			if k >= 2 {
				multi = append(multi, id)
			}
		}
		sort.Ints(multi)
		// deterministic choice: up to two nodes spread over the list
		var picks []int
		if len(multi) > 0 {
			picks = append(picks, multi[int(sc.Seed%uint64(len(multi)))])
			if len(multi) > 2 {
				picks = append(picks, multi[int((sc.Seed/7)%uint64(len(multi)))])
			}
		}
		for _, n := range picks {
			cone, _ := p.upstream(n)
			if len(cone)*cons[n] > 4000 {
				continue
			}
			ssum, sabs, shave, spool, fail := p.coneSplitTwin(0, n)
			if fail != "" {
				out.Fail("backprop-error", "%s", fail)
				return fin()
			}
			out.Probes["cone-split-twins"]++
			sfloor := contractionFloors(sc.Steps, spool, shave, sabs)
			for _, id := range p.order {
				g := gotGrad[id]
				if (g != nil) != shave[id] {
					out.Fail("split-mismatch", "node %d (%s): gradient presence differs between the program and the twin in which every use of node %d recomputes its whole cone", id, p.byID[id].Op, n)
					return fin()
				}
				if g == nil {
					continue
				}
				if ok, why := compareGradFloor(g, ssum[id], sabs[id], sfloor[id]); !ok {
					out.Fail("split-mismatch", "node %d (%s, shape %v): gradient differs from the twin in which every use of node %d (%s) recomputes its whole cone (copies summed by the harness): %s", id, p.byID[id].Op, g.shape, n, p.byID[n].Op, why)
					return fin()
				}
			}
		}
	}

	/* 3. additivity over the history + order independence */
	nc := len(p.roots)
	if nc > 1 {
		// per-graph twins with the shared leaves split per consuming edge: each
		// copy's gradient is one edge's contribution, so the harness knows the
		// exact terms (and their absolute sum) the joint history must add up
		lsum := map[int][]float64{}
		labs := map[int][]float64{}
		addTerm := func(id int, vals []float64) {
			if lsum[id] == nil {
				lsum[id] = make([]float64, len(vals))
				labs[id] = make([]float64, len(vals))
			}
			if len(vals) != len(lsum[id]) {
				return
			}
			for i, v := range vals {
				lsum[id][i] += v
				labs[id][i] += math.Abs(v)
			}
		}
		for c := 0; c < nc; c++ {
			root := p.roots[c]
			if p.byID[root].C == sharedClient {
				// the root is itself a shared leaf: its contribution is the seed of ones
				if p.tracked[root] {
					ones := make([]float64, sim.NElems(main.pool.T[root].Shape()))
					for i := range ones {
						ones[i] = 1
					}
					addTerm(root, ones)
				}
				continue
			}
			split := map[int][]tensor.Tensor{}
			solo := p.buildX(map[int]bool{c: true}, true, nil, split)
			if solo.err != "" {
				out.Fail("twin-forward-error", "solo twin: %s", solo.err)
				return fin()
			}
			if err := tensor.BackPropagate(solo.pool.T[root]); err != nil {
				out.Fail("backprop-error", "solo twin of client %d: %v", c, err)
				return fin()
			}
			ids := make([]int, 0, len(split))
			for id := range split {
				ids = append(ids, id)
			}
			sort.Ints(ids)
			for _, id := range ids {
				for _, cp := range split[id] {
					if g := cp.Gradient(); g != nil {
						addTerm(id, sim.Values(g))
					}
				}
			}
		}
		for _, id := range p.order {
			if p.byID[id].C != sharedClient {
				continue
			}
			g := gotGrad[id]
			if (g != nil) != (lsum[id] != nil) {
				out.Fail("additivity", "shared leaf %d: gradient presence differs between the joint history and the per-graph runs", id)
				return fin()
			}
			if g == nil {
				continue
			}
			if ok, why := compareGrad(g, lsum[id], labs[id]); !ok {
				out.Fail("additivity", "shared leaf %d: gradient after back-propagating %d graphs differs from the sum of the per-edge contributions of the per-graph runs: %s", id, nc, why)
				return fin()
			}
		}
		out.Faults["reorder/backprop-order"]++
		// reversed order: private nodes bitwise equal, shared leaves up to summation order
		rev := p.build(nil, true, nil)
		for i := nc - 1; i >= 0; i-- {
			if err := tensor.BackPropagate(rev.pool.T[p.roots[p.bporder[i]]]); err != nil {
				out.Fail("backprop-error", "reversed-order twin: %v", err)
				return fin()
			}
		}
		for _, id := range p.order {
			g, h := gotGrad[id], readGrad(rev.pool.T[id])
			if (g == nil) != (h == nil) {
				out.Fail("order-dependence", "node %d: gradient presence depends on the order of back-propagations", id)
				return fin()
			}
			if g == nil {
				continue
			}
			if p.byID[id].C != sharedClient {
				for i := range g.vals {
					if math.Float64bits(g.vals[i]) != math.Float64bits(h.vals[i]) {
						out.Fail("order-dependence", "private node %d: gradient element %d is %v or %v depending on the order in which other graphs were back-propagated", id, i, g.vals[i], h.vals[i])
						return fin()
					}
				}
				continue
			}
			if ok, why := compareGrad(h, g.vals, labs[id]); !ok {
				out.Fail("order-dependence", "shared leaf %d: gradient depends on the order of back-propagations: %s", id, why)
				return fin()
			}
		}
	}

	/* 4. exact finite differences on linear programs */
	if sc.Cfg["linear"] == 1 {
		total := func(perturb func(int, []float64) []float64) (float64, bool) {
			run := p.build(nil, false, perturb)
			if run.err != "" {
				return 0, false
			}
			s := 0.0
			for _, c := range p.bporder {
				if !expectRoot(p, c) {
					continue
				}
				s += run.pool.T[p.roots[c]].Sum()
			}
			return s, true
		}
		f0, ok := total(nil)
		if ok {
			const h = 1024.0
			nfd := 0
			for _, id := range p.order {
				st := p.byID[id]
				if st.Op != "tensorof" || !p.tracked[id] || !expect[id] {
					continue
				}
				g := gotGrad[id]
				for i := range st.F {
					if nfd >= 200 {
						break
					}
					nfd++
					i := i
					f1, ok := total(func(pid int, flat []float64) []float64 {
						if pid != id {
							return flat
						}
						c := cpF(flat)
						c[i] += h
						return c
					})
					if !ok {
						continue
					}
					fd := (f1 - f0) / h
					tol := 1e-6*(1+math.Abs(g.vals[i])) + 1e-9*(math.Abs(f0)+math.Abs(f1))/h
					if !(math.Abs(fd-g.vals[i]) <= tol) {
						out.Fail("fd-mismatch", "leaf %d element %d: back-propagated gradient %v, exact finite difference of the (linear) program %v", id, i, g.vals[i], fd)
						return fin()
					}
				}
			}
			out.Probes["fd-checked-elements"] += nfd
		}
	}
	/* 5. directional finite differences on smooth programs without broadcast expansion */
	if sc.Cfg["linear"] != 1 && c01noExpansion(p, main.pool) {
		type lf struct {
			id int
			v  []float64
		}
		var dirs []lf
		gv, gabs := 0.0, 0.0
		finite := true
		for _, id := range p.order {
			st := p.byID[id]
			if st.Op != "tensorof" || !p.tracked[id] || !expect[id] {
				continue
			}
			g := gotGrad[id]
			v := make([]float64, len(st.F))
			for i := range v {
				v[i] = 1
				if sim.SplitMix64(sc.Seed^uint64(id*131+i))&1 == 0 {
					v[i] = -1
				}
				gv += g.vals[i] * v[i]
				gabs += math.Abs(g.vals[i])
				if math.IsNaN(g.vals[i]) || math.IsInf(g.vals[i], 0) {
					finite = false
				}
			}
			dirs = append(dirs, lf{id, v})
		}
		// which branch every ElMax / ElMin / MaxAlong / MinAlong takes: a difference
		// step that flips one of them has crossed a kink (a deep graph can amplify
		// 1e-5 into more than the 1e-3 gap the generator keeps) and says nothing
		pattern := func(pool *sim.Pool) uint64 {
			h := sim.NewHash()
			for _, st := range p.sc.Steps {
				switch st.Op {
				case "elmax", "elmin":
					a, b := sim.Values(pool.T[st.In[0]]), sim.Values(pool.T[st.In[1]])
					for i := range a {
						if a[i] > b[i] {
							h = h.Byte(1)
						} else {
							h = h.Byte(0)
						}
					}
				case "maxalong", "minalong":
					x, y := pool.T[st.In[0]], pool.T[st.Out]
					xv, yv := sim.Values(x), sim.Values(y)
					shape := x.Shape()
					dim := st.I[0]
					inner := 1
					for i := dim + 1; i < len(shape); i++ {
						inner *= shape[i]
					}
					n := shape[dim]
					for o := 0; o < len(xv)/(n*inner); o++ {
						for in := 0; in < inner; in++ {
							for k := 0; k < n; k++ {
								if xv[(o*n+k)*inner+in] == yv[o*inner+in] {
									h = h.Int(k)
									break
								}
							}
						}
					}
				}
			}
			return h.Sum()
		}
		pat0 := pattern(main.pool)
		crossed := false
		F := func(t float64) (float64, bool) {
			run := p.build(nil, false, func(pid int, flat []float64) []float64 {
				for _, d := range dirs {
					if d.id == pid {
						c := cpF(flat)
						for i := range c {
							c[i] += t * d.v[i]
						}
						return c
					}
				}
				return flat
			})
			if run.err != "" {
				return 0, false
			}
			if pattern(run.pool) != pat0 {
				crossed = true
			}
			s := 0.0
			for _, c := range p.bporder {
				if expectRoot(p, c) {
					s += run.pool.T[p.roots[c]].Sum()
				}
			}
			return s, !math.IsNaN(s) && !math.IsInf(s, 0)
		}
		// Small, tame programs only. A deep random composition of exp / sinh /
		// tanh can be flat at every scale above 1e-9 and still have a derivative
		// of order 1 at the operand (thorough runs produced such programs: the
		// back-propagated value was right to 10 digits, every difference quotient
		// with h >= 1e-5 was 0). So: few operations, forward values <= 20, every
		// node's gradient <= 1e3, |d| >= 1e-3, and six step sizes 1e-3 .. 1e-8
		// that all have to agree.
		nops := 0
		for _, st := range sc.Steps {
			if sim.IsTensorOp(st.Op) {
				nops++
			}
		}
		if nops > 14 {
			finite = false
		}
		for _, id := range p.order {
			for _, v := range sim.Values(main.pool.T[id]) {
				if math.Abs(v) > 20 {
					finite = false
				}
			}
			if g := gotGrad[id]; g != nil {
				for _, v := range g.vals {
					if !(math.Abs(v) <= 1e3) {
						finite = false
					}
				}
			}
		}
		if finite && len(dirs) > 0 {
			hs := []float64{1e-3, 1e-4, 1e-5, 1e-6, 1e-7, 1e-8}
			ds := make([]float64, len(hs))
			ns := make([]float64, len(hs))
			_, ok := F(0)
			for k, h := range hs {
				a, ok1 := F(h)
				b, ok2 := F(-h)
				if !ok1 || !ok2 {
					ok = false
					break
				}
				ds[k] = (a - b) / (2 * h)
				ns[k] = 4e-16 * (math.Abs(a) + math.Abs(b) + 1) * float64(nops+4) / h // rounding of the quotient itself
			}
			if ok {
				d := ds[3]
				agree := true
				spread := 0.0
				for k := range ds {
					e := math.Abs(ds[k] - d)
					lim := 1e-2 * math.Abs(d)
					if k >= 2 {
						lim = 1e-4*math.Abs(d) + ns[k] + ns[3]
					}
					if e > lim {
						agree = false
					}
					if k >= 2 && e > spread {
						spread = e
					}
				}
				switch {
				case crossed:
					out.Probes["directional-fd-crossed-a-kink"]++
				case math.Abs(d) < 1e-3 || !agree:
					out.Probes["directional-fd-inconclusive"]++
				case math.Abs(d-gv) > 20*spread+1e-3*math.Abs(d)+1e-11*gabs:
					out.Fail("directional-fd", "the derivative of the summed roots along a random +-1 direction over all tracked leaves is %v by central differences (six step sizes 1e-3..1e-8 agree to %v), but the back-propagated gradients give %v", d, spread, gv)
					return fin()
				default:
					out.Probes["directional-fd-checked"]++
				}
			}
		}
	}
	return fin()
}

// c01noExpansion: no operation of the program expands an operand by
// broadcasting (where the library's known averaging would show).
func c01noExpansion(p *c01prog, pool *sim.Pool) bool {
	for _, st := range p.sc.Steps {
		switch st.Op {
		case "add", "sub", "mul", "div", "dot":
			if !sim.ShapeEq(pool.T[st.In[0]].Shape(), pool.T[st.In[1]].Shape()) {
				return false
			}
		case "matmul":
			a, b := pool.T[st.In[0]].Shape(), pool.T[st.In[1]].Shape()
			if len(a) != len(b) || !sim.ShapeEq(a[:len(a)-2], b[:len(b)-2]) {
				return false
			}
		case "broadcast":
			if !sim.ShapeEq(pool.T[st.In[0]].Shape(), pool.T[st.Out].Shape()) {
				return false
			}
		}
	}
	return true
}

func expectRoot(p *c01prog, c int) bool { return p.tracked[p.roots[c]] }

func (c01) Shrinks(sc *sim.Scenario) []*sim.Scenario {
	var out []*sim.Scenario
	// drop a whole client
	nc := sc.CfgInt("clients")
	if nc > 1 {
		for c := nc - 1; c >= 0; c-- {
			cand := sc.Clone()
			var keep []sim.Step
			for _, st := range cand.Steps {
				if st.C == c {
					continue
				}
				if st.C > c && st.C != sharedClient {
					st.C--
				}
				keep = append(keep, st)
			}
			cand.Steps = keep
			cand.Cfg["clients"] = float64(nc - 1)
			var roots, order []float64
			for i, rt := range sc.Data["roots"] {
				if i != c {
					roots = append(roots, rt)
				}
			}
			for _, o := range sc.Data["bporder"] {
				if int(o) == c {
					continue
				}
				if int(o) > c {
					o--
				}
				order = append(order, o)
			}
			cand.Data["roots"], cand.Data["bporder"] = roots, order
			out = append(out, cand)
		}
	}
	// move a root to one of its operands' consumers... simpler: make the root an earlier node
	byID := map[int]sim.Step{}
	for _, st := range sc.Steps {
		byID[st.Out] = st
	}
	for c, rt := range sc.Data["roots"] {
		st, ok := byID[int(rt)]
		if !ok {
			continue
		}
		for _, o := range st.In {
			if byID[o].C == c {
				cand := sc.Clone()
				cand.Data["roots"][c] = float64(o)
				out = append(out, cand)
			}
		}
	}
	// drop steps (with dependents) unless they feed a root
	out = append(out, sim.StepShrinks(sc)...)
	// shrink leaf shapes to scalars is not attempted (shapes are coupled)
	return out
}
