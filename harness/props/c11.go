package props

import (
	"fmt"
	"math"

	"github.com/sahandsafizadeh/qeep/component/layers"
	"github.com/sahandsafizadeh/qeep/component/layers/activations"
	"github.com/sahandsafizadeh/qeep/component/losses"
	"github.com/sahandsafizadeh/qeep/component/optimizers"
	"github.com/sahandsafizadeh/qeep/tensor"

	"qverif/sim"
)

// C11 — a training loop follows the gradient-descent trajectory of its loss.
//
// Cfg: D, O, batch, nb (mini-batches), lr / lrmode (0 explicit, 1 nil config),
// act (0 none 1 relu 2 leakyrelu 3 sigmoid 4 tanh 5 softmax) with actm /
// actnil / softdim, loss (0 mse 1 bce 2 ce), init (0 harness values, 1 library
// defaults), rngseed, enum. Data: W0, B0, X, T. Steps: op "train", N =
// mini-batch, Tag = fault injected in that step ("" none | skip-reset-w |
// skip-reset-b | skip-reset-both | skip-backprop | dup-update | reorder-bw |
// bad-update).
type c11 struct{}

func init() { sim.Register(c11{}) }

func (c11) ID() string    { return "C11" }
func (c11) Level() string { return "fault_enumeration" }
func (c11) Rule() string {
	return "seeded training histories of FC -> {none, Relu, LeakyRelu, Sigmoid, Tanh, Softmax(dim 0/1/nil)} -> {MSE, BCE, CE} with random widths, batch sizes, learning rates (incl. default, 0, negative), initial weights (harness values incl. exact zeros, or library defaults under a seeded RNG), 1-3 cycled mini-batches, 1-12 steps. Protocol faults step-omission (reset of W / B / both, back-propagation), step-duplication (second Update), reorder (B before W), invalid-call (Update(nil), pointer to nil tensor): for every generated history each fault kind is injected at every step (enumerated). Reference: an independent scalar reverse-mode tape evaluating loss and gradient at the implementation's current weights at every step; under a fault the next Update of every weight must fail and replace nothing, and the first step after the missing reset must match the reference again. Non-trivial: >=2 consecutive successful steps and >=1 fault fired and recovered from. Distinct: hash of (architecture, sizes, fault kind/position sequence). Also: tied parameters (one tensor in both slots), restore of the initial tensor objects, forward / back-propagation twice before the update, rejected tensor-level calls on the live weights, rare long runs of 60-400 steps."
}
func (c11) Assumptions() []string {
	return []string{
		"the reference tape (props/tape.go) and the hand-written forward formulas for FC, the five activations and the three losses with the documented clipping",
		"histories where a pre-activation comes within 1e-6 of a Relu / LeakyRelu kink or a prediction within 0.1% of a clipping bound are discarded (counted); predictions of exactly 0 or 1 are NOT discarded (the clipped loss is flat there, derivative 0)",
		"histories in which a Sigmoid / Softmax pre-activation exceeds 300 in magnitude are discarded too: exp(z)^2 leaves the double range there and the quotient rule evaluates to 0 * Inf in any float implementation (found by a thorough run: weights of -554 after one BCE step from a clipped prediction; the exact derivative is 0, the library — and any float autodiff — returns NaN). The property is not decided in that regime",
		"comparison tolerance 1e-9 * (|w| + |lr| * sum of absolute gradient terms) per weight element; loss value 1e-9 relative to the sum of absolute terms",
		"each step is compared at the implementation's current weights, so rounding never accumulates over steps",
		"known finding C11/broadcast-mean: a step whose new weights equal w - lr*g with every expanding broadcast (W and B over the batch, the softmax normaliser over its dimension) reduced by mean instead of sum is reported as KNOWN-FINDING, not as a violation; batch 1 (and softmax factor 1) runs coincide in both modes and are checked strictly",
	}
}
func (c11) Extra() map[string]any {
	e := baseExtra()
	e["fault_kinds"] = []string{"step-omission", "step-duplication (second Update; forward and back-propagation twice)", "reorder", "invalid-call (Update(nil), rejected tensor-level calls on the live weights)", "pointer-swap (tied parameters, restore of the initial tensor objects)"}
	return e
}

var c11Faults = []string{"skip-reset-w", "skip-reset-b", "skip-reset-both", "skip-backprop", "dup-update", "reorder-bw", "bad-update", "skip-update-w", "skip-update-b", "bad-call", "restore", "dup-forward"}

func (c11) Generate(r *sim.Rand, tier string) *sim.Scenario {
	sc := &sim.Scenario{Cfg: map[string]float64{}, Data: map[string][]float64{}}
	loss := r.Intn(3)
	O := 1
	if loss == 2 {
		O = r.Range(1, 4)
	}
	D := r.Range(1, 5)
	if r.Bool(0.1) {
		D = r.Range(6, 24)
	}
	wideLayer := r.Bool(0.004)
	if wideLayer {
		D = r.Range(129, 300) // a wide layer
	}
	if loss == 2 && r.Bool(0.1) {
		O = r.Range(5, 17)
	}
	batch := []int{1, 1, 2, 3, 4, 6, 1, 2, 5, 17, 24, 33}[r.Intn(12)]
	hugeBatch := !wideLayer && r.Bool(0.0006)
	if hugeBatch {
		// one mini-batch of tens of thousands of samples through a tiny model
		batch, D = r.Range(16500, 24000), r.Range(1, 2)
		if O > 2 {
			O = 1
		}
	}
	if wideLayer {
		batch = r.Range(1, 6) // keep the wide flavour cheap: small batches, few outputs, few steps
		if O > 4 {
			O = r.Range(1, 4)
		}
	}
	nb := r.Range(1, 3)
	act := r.Intn(6)
	// favour sensible pairings but keep all
	if loss == 1 && r.Bool(0.6) {
		act = 3
	}
	if loss == 2 && r.Bool(0.6) {
		act = 5
	}
	sc.Cfg["D"], sc.Cfg["O"], sc.Cfg["batch"], sc.Cfg["nb"] = float64(D), float64(O), float64(batch), float64(nb)
	sc.Cfg["act"], sc.Cfg["loss"] = float64(act), float64(loss)
	switch act {
	case 2:
		if r.Bool(0.3) {
			sc.Cfg["actnil"] = 1
		} else {
			sc.Cfg["actm"] = []float64{0.01, 0.2, 0.5, -0.1, 1, 0, 2, -1, r.Uniform(-1, 2)}[r.Intn(9)]
		}
	case 5:
		switch r.Intn(3) {
		case 0:
			sc.Cfg["actnil"] = 1
		case 1:
			sc.Cfg["softdim"] = 0
		default:
			sc.Cfg["softdim"] = 1
		}
	}
	switch r.Intn(8) {
	case 0:
		sc.Cfg["lrmode"] = 1 // nil config: default 0.01
	case 1:
		sc.Cfg["lr"] = 0
	case 2:
		sc.Cfg["lr"] = -r.LogUniform(1e-3, 1)
	default:
		sc.Cfg["lr"] = r.LogUniform(1e-3, 1)
	}
	sc.Cfg["rngseed"] = float64(r.Intn(1 << 30))
	if r.Bool(0.3) {
		sc.Cfg["reread"] = 1
	}
	if r.Bool(0.12) {
		sc.Cfg["tied"] = 1
	}
	if r.Bool(0.25) {
		sc.Cfg["init"] = 1
	} else if r.Bool(0.25) {
		sc.Cfg["init"] = 2
		sc.Data["initk"] = genLibInit(r)
	} else {
		zeros := r.Bool(0.15)
		w, b := make([]float64, O), make([]float64, O)
		for i := range w {
			if !zeros {
				w[i], b[i] = r.Value(true), r.Value(true)
			}
		}
		sc.Data["W0"], sc.Data["B0"] = w, b
	}
	x := make([]float64, nb*batch*D)
	for i := range x {
		x[i] = r.Value(true)
	}
	t := make([]float64, nb*batch*O)
	for i := range t {
		switch {
		case loss == 0:
			t[i] = r.Value(false)
		case r.Bool(0.5):
			t[i] = float64(r.Intn(2))
		default:
			t[i] = r.Float64()
		}
	}
	sc.Data["X"], sc.Data["T"] = x, t
	nsteps := r.Range(1, 8)
	if tier == "thorough" {
		nsteps = r.Range(1, 12)
	}
	if r.Bool(0.05) {
		nsteps = r.Range(13, 30) // long histories (fault enumeration grows with the square: kept rare)
	}
	pf := []float64{0, 0, 0.15, 0.3}[r.Intn(4)]
	if wideLayer && nsteps > 6 {
		nsteps = r.Range(1, 6)
	}
	if hugeBatch {
		nsteps = r.Range(1, 2)
	}
	long := !wideLayer && !hugeBatch && r.Bool(0.015)
	if long {
		// a long training run on one model, one optimizer, one set of component
		// objects (per-object state that only matters after many steps): small
		// learning rate so that the trajectory stays in range, a few faults, no
		// enumeration of fault positions
		nsteps = r.Range(60, 400)
		sc.Cfg["lr"], sc.Cfg["lrmode"] = r.LogUniform(1e-4, 5e-3), 0
		pf = 0.01
	}
	for k := 0; k < nsteps; k++ {
		st := sim.Step{Op: "train", N: k % nb, Out: -1}
		if r.Bool(pf) {
			st.Tag = c11Faults[r.Intn(len(c11Faults))]
		}
		sc.Steps = append(sc.Steps, st)
	}
	sc.Cfg["enum"] = 1
	if long || wideLayer || hugeBatch {
		sc.Cfg["enum"] = 0
	}
	return sc
}

/* ---------- reference ---------- */

type c11cfg struct {
	D, O, batch, nb int
	act, loss       int
	actm            float64
	softdim         int
	lr              float64
}

const c11eps = 1e-12

// reference evaluates loss and gradient (w.r.t. W and B) at the given weights.
// near = true when the history sits at a non-differentiable point.
func c11reference(cfg c11cfg, W, B, X, T []float64, mean bool) (loss float64, lossAbs float64, gW, gB, aW, aB []float64, near bool) {
	tp := newTape(mean)
	O, D, nbt := cfg.O, cfg.D, cfg.batch
	w := make([]int, O)
	b := make([]int, O)
	for o := 0; o < O; o++ {
		w[o], b[o] = tp.leaf(W[o]), tp.leaf(B[o])
	}
	z := make([][]int, nbt)
	for bi := 0; bi < nbt; bi++ {
		z[bi] = make([]int, O)
		for o := 0; o < O; o++ {
			wc := tp.expand(w[o], nbt)
			bc := tp.expand(b[o], nbt)
			acc := -1
			for d := 0; d < D; d++ {
				term := tp.scale(wc, X[bi*D+d])
				if acc < 0 {
					acc = term
				} else {
					acc = tp.add(acc, term)
				}
			}
			z[bi][o] = tp.add(acc, bc)
		}
	}
	a := make([][]int, nbt)
	for bi := range a {
		a[bi] = make([]int, O)
	}
	if cfg.act == 3 || cfg.act == 5 {
		// exp(z)^2 must stay inside the double range: beyond that every float
		// implementation of the quotient rule produces 0 * Inf, and the property
		// cannot be decided by comparing floats
		for bi := range z {
			for o := range z[bi] {
				if math.Abs(tp.v[z[bi][o]]) > 300 {
					near = true
				}
			}
		}
	}
	switch cfg.act {
	case 0:
		a = z
	case 1, 2:
		m := 0.0
		if cfg.act == 2 {
			m = cfg.actm
		}
		for bi := range z {
			for o := range z[bi] {
				if math.Abs(tp.v[z[bi][o]]) < 1e-6 {
					near = true
				}
				a[bi][o] = tp.lrelu(z[bi][o], m)
			}
		}
	case 3:
		for bi := range z {
			for o := range z[bi] {
				e := tp.exp(tp.scale(z[bi][o], -1))
				a[bi][o] = tp.inv(tp.addc(e, 1))
			}
		}
	case 4:
		for bi := range z {
			for o := range z[bi] {
				a[bi][o] = tp.tanh(z[bi][o])
			}
		}
	case 5:
		e := make([][]int, nbt)
		for bi := range z {
			e[bi] = make([]int, O)
			for o := range z[bi] {
				e[bi][o] = tp.exp(z[bi][o])
			}
		}
		if cfg.softdim == 1 {
			for bi := range z {
				s := e[bi][0]
				for o := 1; o < O; o++ {
					s = tp.add(s, e[bi][o])
				}
				for o := 0; o < O; o++ {
					a[bi][o] = tp.div(e[bi][o], tp.expand(s, O))
				}
			}
		} else {
			for o := 0; o < O; o++ {
				s := e[0][o]
				for bi := 1; bi < nbt; bi++ {
					s = tp.add(s, e[bi][o])
				}
				for bi := 0; bi < nbt; bi++ {
					a[bi][o] = tp.div(e[bi][o], tp.expand(s, nbt))
				}
			}
		}
	}
	clipP := func(p int) int {
		x := tp.v[p]
		if math.Abs(x-c11eps) <= 1e-3*c11eps || math.Abs(x-(1-c11eps)) <= 1e-15 {
			near = true
		}
		return tp.clamp(p, c11eps, 1-c11eps)
	}
	clipT := func(t float64) float64 { return math.Max(0, math.Min(1, t)) }
	var root int
	switch cfg.loss {
	case 0: // mean (t - p)^2
		acc := -1
		for bi := 0; bi < nbt; bi++ {
			d := tp.sq(tp.addc(tp.scale(a[bi][0], -1), T[bi]))
			if acc < 0 {
				acc = d
			} else {
				acc = tp.add(acc, d)
			}
		}
		root = tp.scale(acc, 1/float64(nbt))
	case 1:
		acc := -1
		for bi := 0; bi < nbt; bi++ {
			t := clipT(T[bi])
			p := clipP(a[bi][0])
			s1 := tp.scale(tp.log(p), t)
			s2 := tp.scale(tp.log(tp.addc(tp.scale(p, -1), 1)), 1-t)
			term := tp.add(s1, s2)
			if acc < 0 {
				acc = term
			} else {
				acc = tp.add(acc, term)
			}
		}
		root = tp.scale(acc, -1/float64(nbt))
	case 2:
		acc := -1
		for bi := 0; bi < nbt; bi++ {
			for o := 0; o < O; o++ {
				t := clipT(T[bi*O+o])
				term := tp.scale(tp.log(clipP(a[bi][o])), t)
				if acc < 0 {
					acc = term
				} else {
					acc = tp.add(acc, term)
				}
			}
		}
		root = tp.scale(acc, -1/float64(nbt))
	}
	g, ga := tp.backward(root)
	gW, gB, aW, aB = make([]float64, O), make([]float64, O), make([]float64, O), make([]float64, O)
	for o := 0; o < O; o++ {
		gW[o], gB[o], aW[o], aB[o] = g[w[o]], g[b[o]], ga[w[o]], ga[b[o]]
	}
	// magnitude of the loss terms: reuse gabs machinery through a forward abs sum
	lossAbs = math.Abs(tp.v[root])
	for i := range tp.v {
		if tp.par[i][0] >= 0 && tp.par[i][1] >= 0 { // binary nodes: sums of terms
			if v := math.Abs(tp.v[i]); v > lossAbs {
				lossAbs = v
			}
		}
	}
	return tp.v[root], lossAbs, gW, gB, aW, aB, near
}

/* ---------- execution ---------- */

type act interface {
	Forward(xs ...tensor.Tensor) (tensor.Tensor, error)
}
type lossFn interface {
	Compute(yp tensor.Tensor, yt tensor.Tensor) (tensor.Tensor, error)
}

func c11cfgOf(sc *sim.Scenario) (c11cfg, string) {
	c := c11cfg{D: sc.CfgInt("D"), O: sc.CfgInt("O"), batch: sc.CfgInt("batch"), nb: sc.CfgInt("nb"),
		act: sc.CfgInt("act"), loss: sc.CfgInt("loss"), actm: sc.Cfg["actm"], softdim: sc.CfgInt("softdim"), lr: sc.Cfg["lr"]}
	if c.D < 1 || c.O < 1 || c.batch < 1 || c.nb < 1 || c.act < 0 || c.act > 5 || c.loss < 0 || c.loss > 2 {
		return c, "malformed"
	}
	if c.loss != 2 && c.O != 1 {
		return c, "malformed"
	}
	if sc.Cfg["actnil"] == 1 {
		c.actm, c.softdim = 0.01, 0
	}
	if sc.Cfg["lrmode"] == 1 {
		c.lr = 0.01
	}
	if len(sc.Data["X"]) < c.nb*c.batch*c.D || len(sc.Data["T"]) < c.nb*c.batch*c.O {
		return c, "malformed"
	}
	return c, ""
}

func (prop c11) Execute(sc *sim.Scenario) *sim.Outcome {
	out := prop.execOne(sc)
	if sc.Cfg["enum"] != 1 || out.Violation != nil || out.Discard != "" {
		return out
	}
	// enumerate every fault kind at every step of the fault-free history
	base := sc.Clone()
	base.Cfg["enum"] = 0
	for i := range base.Steps {
		base.Steps[i].Tag = ""
	}
	stride := 1
	if n := len(base.Steps); n > 12 {
		stride = (n + 11) / 12 // long histories: about twelve fault positions, spread evenly
	}
	for k := range base.Steps {
		if k%stride != 0 {
			continue
		}
		for _, f := range c11Faults {
			v := base.Clone()
			v.Steps[k].Tag = f
			o := prop.execOne(v)
			if o.Discard != "" {
				continue
			}
			out.Probes["enumerated-fault-placements"]++
			out.SimSteps += o.SimSteps
			for kk, n := range o.Faults {
				out.Faults[kk] += n
			}
			for kk, n := range o.Probes {
				out.Probes[kk] += n
			}
			out.KnownHits = append(out.KnownHits, o.KnownHits...)
			if o.Nontrivial {
				out.Nontrivial = true
			}
			if o.Violation != nil {
				out.Violation = o.Violation
				out.Concrete = v
				return out
			}
		}
	}
	if len(out.KnownHits) > 1 {
		out.KnownHits = out.KnownHits[:1]
	}
	return out
}

func (c11) execOne(sc *sim.Scenario) *sim.Outcome {
	out := sim.NewOutcome()
	start := sim.Now()
	lh := sim.NewHash()
	sig := sim.NewHash()
	fin := func() *sim.Outcome { return finish(out, lh, sig, start) }
	cfg, bad := c11cfgOf(sc)
	if bad != "" {
		out.Discard = bad
		return out
	}
	sig = sig.Int(cfg.D).Int(cfg.O).Int(cfg.batch).Int(cfg.nb).Int(cfg.act).Int(cfg.loss).Int(cfg.softdim).Int(sc.CfgInt("init")).Int(sc.CfgInt("lrmode"))
	for _, st := range sc.Steps {
		sig = sig.Str(st.Tag).Int(st.N)
	}
	sim.SeedLibraryRNG(uint64(sc.Cfg["rngseed"]))
	/* assemble the model from the library's parts */
	fcc := &layers.FCConfig{Inputs: cfg.D, Outputs: cfg.O}
	switch sc.CfgInt("init") {
	case 0:
		if len(sc.Data["W0"]) != cfg.O || len(sc.Data["B0"]) != cfg.O {
			out.Discard = "malformed"
			return out
		}
		fcc.Initializers = map[string]layers.Initializer{"Weight": hInit{sc.Data["W0"]}, "Bias": hInit{sc.Data["B0"]}}
	case 2:
		fcc.Initializers = libInitializers(sc.Data["initk"])
		if fcc.Initializers == nil {
			out.Discard = "malformed"
			return out
		}
	}
	fc, err := layers.NewFC(fcc)
	if err != nil {
		out.Fail("model-assembly", "NewFC(%d -> %d) failed: %v", cfg.D, cfg.O, err)
		return fin()
	}
	var activation act
	switch cfg.act {
	case 1:
		activation = activations.NewRelu()
	case 2:
		if sc.Cfg["actnil"] == 1 {
			activation = activations.NewLeakyRelu(nil)
		} else {
			activation = activations.NewLeakyRelu(&activations.LeakyReluConfig{M: cfg.actm})
		}
	case 3:
		activation = activations.NewSigmoid()
	case 4:
		activation = activations.NewTanh()
	case 5:
		var sm *activations.Softmax
		if sc.Cfg["actnil"] == 1 {
			sm, err = activations.NewSoftmax(nil)
		} else {
			sm, err = activations.NewSoftmax(&activations.SoftmaxConfig{Dim: cfg.softdim})
		}
		if err != nil {
			out.Fail("model-assembly", "NewSoftmax failed: %v", err)
			return fin()
		}
		activation = sm
	}
	var loss lossFn
	switch cfg.loss {
	case 0:
		loss = losses.NewMSE()
	case 1:
		loss = losses.NewBCE()
	default:
		loss = losses.NewCE()
	}
	var sgd *optimizers.SGD
	if sc.Cfg["lrmode"] == 1 {
		sgd = optimizers.NewSGD(nil)
	} else {
		sgd = optimizers.NewSGD(&optimizers.SGDConfig{LearningRate: cfg.lr})
	}
	/* mini-batches */
	xs := make([]tensor.Tensor, cfg.nb)
	ts := make([]tensor.Tensor, cfg.nb)
	for i := 0; i < cfg.nb; i++ {
		xs[i] = sim.Leaf([]int{cfg.batch, cfg.D}, sc.Data["X"][i*cfg.batch*cfg.D:(i+1)*cfg.batch*cfg.D], false)
		if cfg.loss == 2 {
			ts[i] = sim.Leaf([]int{cfg.batch, cfg.O}, sc.Data["T"][i*cfg.batch*cfg.O:(i+1)*cfg.batch*cfg.O], false)
		} else {
			ts[i] = sim.Leaf([]int{cfg.batch}, sc.Data["T"][i*cfg.batch:(i+1)*cfg.batch], false)
		}
	}
	weights := fc.Weights()
	if len(weights) != 2 || weights[0].Value == nil || weights[1].Value == nil {
		out.Fail("model-assembly", "FC.Weights() did not return two addressable parameters")
		return fin()
	}
	if *weights[0].Value != nil && *weights[0].Value == *weights[1].Value {
		out.Fail("model-assembly", "W and B are one and the same tensor object after construction (the caller did not tie them)")
		return fin()
	}
	if sc.Cfg["tied"] == 1 {
		// one tensor object in both slots (both have shape [Outputs]): it plays both
		// roles of the formula, so dLoss/dw is the sum of the two roles' derivatives
		// until the first update puts two new tensors into the slots
		*weights[1].Value = *weights[0].Value
		out.Faults["pointer-swap/tied-parameters"]++
	}
	w0obj, b0obj := *weights[0].Value, *weights[1].Value
	// a trainer usually asks for the pointers once; with Cfg["reread"]=1 it
	// asks again before every use
	reread := sc.Cfg["reread"] == 1
	slot := func(k int) *tensor.Tensor {
		if reread {
			if ws := fc.Weights(); len(ws) == 2 && ws[k].Value != nil {
				return ws[k].Value
			}
			panic("FC.Weights() no longer returns two addressable parameters")
		}
		return weights[k].Value
	}
	readW := func() ([]float64, []float64, bool) {
		sim.Pause()
		defer sim.Resume()
		w, b := *slot(0), *slot(1)
		if w == nil || b == nil || !sim.ShapeEq(w.Shape(), []int{cfg.O}) || !sim.ShapeEq(b.Shape(), []int{cfg.O}) {
			return nil, nil, false
		}
		return sim.Values(w), sim.Values(b), true
	}
	// per-weight protocol state: fresh = the tensor behind the slot is a fresh
	// tracked leaf (initialised or reset) and has not been replaced since
	fresh := [2]bool{true, true}
	consecutive, maxConsecutive := 0, 0
	faultFired, recovered := false, false
	awaitingRecovery := false
	for si, st := range sc.Steps {
		if st.Op != "train" || st.N < 0 || st.N >= cfg.nb {
			out.Discard = "malformed"
			return out
		}
		where := fmt.Sprintf("step %d (mini-batch %d, fault %q)", si, st.N, st.Tag)
		if st.Tag == "restore" && si > 0 {
			// roll back to the checkpoint: the initial tensor objects are put back
			// into the slots as fresh tracked leaves and training goes on with the
			// same optimizer, layer, activation and loss objects
			*slot(0), *slot(1) = w0obj, b0obj
			w0obj.ResetGradContext(true)
			b0obj.ResetGradContext(true)
			fresh = [2]bool{true, true}
			awaitingRecovery = false
			out.Faults["pointer-swap/restore-initial-objects"]++
			faultFired = true
		}
		W, B, ok := readW()
		if !ok {
			out.Fail("weight-shape", "%s: a weight is nil or changed its shape", where)
			return fin()
		}
		X := sc.Data["X"][st.N*cfg.batch*cfg.D : (st.N+1)*cfg.batch*cfg.D]
		T := sc.Data["T"][st.N*cfg.batch*cfg.O : (st.N+1)*cfg.batch*cfg.O]
		refLoss, lossAbs, gW, gB, aW, aB, near := c11reference(cfg, W, B, X, T, false)
		_, _, mW, mB, _, _, _ := c11reference(cfg, W, B, X, T, true)
		if near {
			out.Discard = "near-nondifferentiable"
			return out
		}
		if *slot(0) == *slot(1) && sc.Cfg["tied"] != 1 {
			out.Fail("weights-aliased", "%s: W and B are one and the same tensor object although the caller never put one object into both slots", where)
			return fin()
		}
		if *slot(0) == *slot(1) {
			for o := 0; o < cfg.O; o++ {
				gW[o], mW[o], aW[o] = gW[o]+gB[o], mW[o]+mB[o], aW[o]+aB[o]
				gB[o], mB[o], aB[o] = gW[o], mW[o], aW[o]
			}
			out.Probes["step-with-tied-parameters"]++
		}
		for _, v := range append(append([]float64{refLoss}, gW...), gB...) {
			if math.IsNaN(v) || math.IsInf(v, 0) {
				out.Discard = "reference-not-finite"
				return out
			}
		}
		oldW, oldB := *weights[0].Value, *weights[1].Value
		sim.Pause()
		oldWfp, oldBfp := sim.ValFP(oldW), sim.ValFP(oldB)
		sim.Resume()
		reps := 1
		if st.Tag == "dup-forward" {
			// step-duplication: forward, loss and back-propagation run twice at the
			// same weights before the update (gradient accumulation over two
			// graphs): the gradients of the two graphs add up
			reps = 2
			for o := 0; o < cfg.O; o++ {
				gW[o], mW[o], aW[o] = 2*gW[o], 2*mW[o], 2*aW[o]
				gB[o], mB[o], aB[o] = 2*gB[o], 2*mB[o], 2*aB[o]
			}
			out.Faults["step-duplication/forward-and-backprop"]++
			faultFired = true
		}
		var losses []tensor.Tensor
		for rep := 0; rep < reps; rep++ {
			/* forward, loss */
			y, err := fc.Forward(xs[st.N])
			if err != nil {
				out.Fail("forward-error", "%s: FC.Forward failed: %v", where, err)
				return fin()
			}
			if activation != nil {
				y, err = activation.Forward(y)
				if err != nil {
					out.Fail("forward-error", "%s: activation Forward on a [%d,%d] tensor failed: %v", where, cfg.batch, cfg.O, err)
					return fin()
				}
			}
			if cfg.loss != 2 {
				y, err = y.Squeeze(1)
				if err != nil {
					out.Fail("forward-error", "%s: Squeeze(1) of the [batch,1] output failed: %v", where, err)
					return fin()
				}
			}
			l, err := loss.Compute(y, ts[st.N])
			if err != nil {
				out.Fail("forward-error", "%s: loss Compute failed: %v", where, err)
				return fin()
			}
			sim.Pause()
			if len(l.Shape()) != 0 {
				out.Fail("loss-value", "%s: loss is not a scalar tensor (shape %v)", where, l.Shape())
				sim.Resume()
				return fin()
			}
			lv := sim.Values(l)[0]
			sim.Resume()
			lh = lh.F64(lv)
			if !(math.Abs(lv-refLoss) <= 1e-9*(lossAbs+math.Abs(refLoss))+1e-300) {
				out.Fail("loss-value", "%s: loss %v, reference %v at the current weights W=%v B=%v", where, lv, refLoss, W, B)
				return fin()
			}
			losses = append(losses, l)
		}
		/* backward: after all graphs of the step are built (a back-propagated
		   weight is spent: a graph built on it afterwards would be dead) */
		for _, l := range losses {
			if st.Tag != "skip-backprop" {
				if err := tensor.BackPropagate(l); err != nil {
					out.Fail("backprop-error", "%s: BackPropagate(loss) failed: %v", where, err)
					return fin()
				}
			} else {
				out.Faults["step-omission/backprop"]++
				faultFired = true
			}
		}
		if st.Tag == "bad-update" {
			out.Faults["invalid-call/update-nil"]++
			faultFired = true
			if err := sgd.Update(nil); err == nil {
				out.Fail("invalid-call-accepted", "%s: Update(nil) returned no error", where)
				return fin()
			}
			var nt tensor.Tensor
			if err := sgd.Update(&nt); err == nil || nt != nil {
				out.Fail("invalid-call-accepted", "%s: Update(pointer to nil tensor) returned no error or stored something", where)
				return fin()
			}
			if *weights[0].Value != oldW || *weights[1].Value != oldB {
				out.Fail("rejected-call-changed-state", "%s: a rejected Update changed a weight", where)
				return fin()
			}
		}
		if st.Tag == "bad-call" {
			// rejected tensor-level calls with the live weights as operands, between
			// back-propagation and update: where the most in-flight state exists
			faultFired = true
			salt := si*31 + sc.CfgInt("rngseed")%977
			for k := 0; k < 2; k++ {
				kind := badKinds[(salt+k*13)%len(badKinds)]
				oracle, msg, _, _ := badVerdict(kind, salt+k, *weights[k].Value)
				out.Faults["invalid-call/"+kind]++
				if oracle != "" {
					out.Fail(oracle, "%s: %s", where, msg)
					return fin()
				}
			}
			if *weights[0].Value != oldW || *weights[1].Value != oldB {
				out.Fail("rejected-call-changed-state", "%s: a rejected call replaced a weight", where)
				return fin()
			}
		}
		/* updates */
		order := []int{0, 1}
		if st.Tag == "reorder-bw" {
			order = []int{1, 0}
			out.Faults["reorder/update-order"]++
			faultFired = true
		}
		// any weight that was replaced and not reset poisons the whole forward
		// pass (its results are spent), so no weight receives a gradient
		mustFail := !fresh[0] || !fresh[1] || st.Tag == "skip-backprop"
		var uerr [2]error
		skipUpd := -1
		if st.Tag == "skip-update-w" {
			skipUpd = 0
		} else if st.Tag == "skip-update-b" {
			skipUpd = 1
		}
		if skipUpd >= 0 {
			out.Faults["step-omission/update-of-one-weight"]++
			faultFired = true
		}
		for _, k := range order {
			if k == skipUpd {
				continue // this weight's update is left out in this step (it is still reset below)
			}
			uerr[k] = sgd.Update(slot(k))
		}
		nW, nB, ok := readW()
		if !ok {
			out.Fail("weight-shape", "%s: a weight is nil or changed its shape after Update", where)
			return fin()
		}
		for _, v := range append(append([]float64{}, nW...), nB...) {
			lh = lh.F64(v)
		}
		sim.Pause()
		if sim.ValFP(oldW) != oldWfp || sim.ValFP(oldB) != oldBfp {
			out.Fail("old-weight-mutated", "%s: the previous weight tensor was modified by the step", where)
			sim.Resume()
			return fin()
		}
		sim.Resume()
		if mustFail {
			for k, name := range []string{"W", "B"} {
				if k == skipUpd {
					continue
				}
				if uerr[k] == nil {
					out.Fail("stale-update-accepted", "%s: Update(%s) succeeded although the protocol was broken before it (omitted reset or back-propagation): training on stale state", where, name)
					return fin()
				}
			}
			if *weights[0].Value != oldW || *weights[1].Value != oldB {
				out.Fail("failed-update-replaced", "%s: a failed Update replaced a weight", where)
				return fin()
			}
			consecutive = 0
			awaitingRecovery = true
		} else {
			for k, name := range []string{"W", "B"} {
				if uerr[k] != nil {
					out.Fail("update-error", "%s: Update(%s) failed on a correctly driven step: %v", where, name, uerr[k])
					return fin()
				}
			}
			if (skipUpd != 0 && *weights[0].Value == oldW) || (skipUpd != 1 && *weights[1].Value == oldB) {
				out.Fail("update-in-place", "%s: Update did not replace the tensor behind the pointer", where)
				return fin()
			}
			if (skipUpd == 0 && *weights[0].Value != oldW) || (skipUpd == 1 && *weights[1].Value != oldB) {
				out.Fail("weight-moved-without-update", "%s: a weight whose Update was left out was replaced", where)
				return fin()
			}
			if skipUpd == 0 {
				// the reference for a weight that was not updated: it stays put
				gW, mW = make([]float64, cfg.O), make([]float64, cfg.O)
			} else if skipUpd == 1 {
				gB, mB = make([]float64, cfg.O), make([]float64, cfg.O)
			}
			/* trajectory */
			sumOK, meanOK := true, true
			var why, whyMean string
			for o := 0; o < cfg.O; o++ {
				for k, pair := range [][5]float64{{W[o], nW[o], gW[o], mW[o], aW[o]}, {B[o], nB[o], gB[o], mB[o], aB[o]}} {
					w, nw, g, gm, ga := pair[0], pair[1], pair[2], pair[3], pair[4]
					tol := 1e-9*(math.Abs(w)+math.Abs(cfg.lr)*ga) + 1e-300
					if !(math.Abs(nw-(w-cfg.lr*g)) <= tol) {
						sumOK = false
						if why == "" {
							why = fmt.Sprintf("%s[%d]: %v -> %v, expected %v - (%v)*(%v) = %v", []string{"W", "B"}[k], o, w, nw, w, cfg.lr, g, w-cfg.lr*g)
						}
					}
					if !(math.Abs(nw-(w-cfg.lr*gm)) <= tol) {
						meanOK = false
						if whyMean == "" {
							whyMean = fmt.Sprintf("%s[%d]: %v -> %v, mean-reduced variant predicts %v", []string{"W", "B"}[k], o, w, nw, w-cfg.lr*gm)
						}
					}
				}
			}
			switch {
			case sumOK:
				out.Probes["steps-matching-gradient-descent"]++
			case meanOK:
				out.Probes["steps-matching-mean-mode-only"]++
				if len(out.KnownHits) == 0 {
					out.KnownHits = append(out.KnownHits, sim.KnownHit{Key: "broadcast-mean", V: sim.Violation{Oracle: "trajectory-broadcast-mean",
						Msg: fmt.Sprintf("%s: weights moved by lr times the gradient with every broadcast expansion averaged instead of summed (batch %d): %s", where, cfg.batch, why)}})
				}
			default:
				out.Fail("trajectory", "%s: %s (matches neither the derivative of the mini-batch loss nor the known mean-reduced variant: %s)", where, why, whyMean)
				return fin()
			}
			fresh = [2]bool{skipUpd == 0, skipUpd == 1}
			consecutive++
			if consecutive > maxConsecutive {
				maxConsecutive = consecutive
			}
			if awaitingRecovery {
				recovered = true
				awaitingRecovery = false
				out.Probes["recovered-one-step-after-fault"]++
			}
		}
		/* duplicate update */
		if st.Tag == "dup-update" {
			out.Faults["step-duplication/update"]++
			faultFired = true
			cw, cb := *weights[0].Value, *weights[1].Value
			for k, name := range []string{"W", "B"} {
				if err := sgd.Update(slot(k)); err == nil {
					out.Fail("stale-update-accepted", "%s: a second Update(%s) without a new gradient succeeded", where, name)
					return fin()
				}
			}
			if *weights[0].Value != cw || *weights[1].Value != cb {
				out.Fail("failed-update-replaced", "%s: a failed duplicate Update replaced a weight", where)
				return fin()
			}
		}
		/* reset */
		skipW := st.Tag == "skip-reset-w" || st.Tag == "skip-reset-both"
		skipB := st.Tag == "skip-reset-b" || st.Tag == "skip-reset-both"
		if skipW || skipB {
			out.Faults["step-omission/reset"]++
			faultFired = true
		}
		if !skipW {
			(*slot(0)).ResetGradContext(true)
			fresh[0] = true
		}
		if !skipB {
			(*slot(1)).ResetGradContext(true)
			fresh[1] = true
		}
	}
	if maxConsecutive >= 2 {
		out.Probes["two-consecutive-successful-steps"]++
	}
	out.Nontrivial = maxConsecutive >= 2 && faultFired && (recovered || !hasStaleFault(sc))
	return fin()
}

func hasStaleFault(sc *sim.Scenario) bool {
	for _, st := range sc.Steps {
		switch st.Tag {
		case "skip-reset-w", "skip-reset-b", "skip-reset-both", "skip-backprop":
			return true
		}
	}
	return false
}

func (c11) Shrinks(sc *sim.Scenario) []*sim.Scenario {
	var out []*sim.Scenario
	// fewer steps (from the end), then remove faults, then simplify sizes
	for n := len(sc.Steps) - 1; n >= 1; n-- {
		c := sc.Clone()
		c.Steps = c.Steps[:n]
		out = append(out, c)
	}
	for i := range sc.Steps {
		if sc.Steps[i].Tag != "" {
			c := sc.Clone()
			c.Steps[i].Tag = ""
			out = append(out, c)
		}
	}
	for i := 0; i < len(sc.Steps)-1; i++ {
		c := sc.Clone()
		c.Steps = append(c.Steps[:i], c.Steps[i+1:]...)
		out = append(out, c)
	}
	if sc.Cfg["enum"] == 1 {
		c := sc.Clone()
		c.Cfg["enum"] = 0
		out = append(out, c)
	}
	// round data
	for _, key := range []string{"X", "T", "W0", "B0"} {
		if len(sc.Data[key]) == 0 {
			continue
		}
		c := sc.Clone()
		ch := false
		for i, v := range c.Data[key] {
			r := math.Round(v*4) / 4
			if r != v {
				c.Data[key][i] = r
				ch = true
			}
		}
		if ch {
			out = append(out, c)
		}
	}
	return out
}

// libInitializers builds the FC initializer map from library initializers:
// k = [kind for Weight, kind for Bias, share] — share = 1 uses ONE initializer
// instance for both keys (kinds are then equal).
func libInitializers(k []float64) map[string]layers.Initializer {
	if len(k) != 3 {
		return nil
	}
	w := c10Initializer(int(k[0]))
	b := c10Initializer(int(k[1]))
	if k[2] == 1 {
		b = w
	}
	return map[string]layers.Initializer{"Weight": w, "Bias": b}
}

func genLibInit(r *sim.Rand) []float64 {
	kw, kb := r.Intn(len(c10InitKinds)), r.Intn(len(c10InitKinds))
	share := 0.0
	if r.Bool(0.4) {
		kb, share = kw, 1
	}
	return []float64{float64(kw), float64(kb), share}
}
