package props

import (
	"fmt"
	"math"
	"os"
	"sort"
	"strings"
	"sync"

	"github.com/sahandsafizadeh/qeep/component/layers"
	"github.com/sahandsafizadeh/qeep/component/layers/activations"
	"github.com/sahandsafizadeh/qeep/component/losses"
	"github.com/sahandsafizadeh/qeep/component/optimizers"
	"github.com/sahandsafizadeh/qeep/tensor"

	"qverif/sim"
)

// C20 — concurrent computations on shared tensors are race-free and
// deterministic.
//
// Setup steps (C = 99): shared tensors with ids < 1000 (B = tracked parameter
// or untracked data); Cfg fcin/fcout + Data fcW/fcB: one shared FC layer;
// shared activation and loss objects. Task steps (C = task): private ids
// >= 1000; ops as in the other properties plus "fcforward", "act" (N = kind),
// "loss" (N = kind), "init" (N = kind). Tag "rng" marks results derived from
// random draws (compared by shape only). Sched = explicit preemption plan,
// Cfg["first"] = first task, Cfg["bias"] = site class a due preemption waits for.
type c20 struct{}

func init() { sim.Register(c20{}) }

func (c20) ID() string    { return "C20" }
func (c20) Level() string { return "exploration" }
func (c20) Rule() string {
	return "2-6 tasks, each a generated straight-line program over shared untracked tensors, shared tracked parameter leaves, a shared FC layer and shared activation / loss objects plus private tensors (forward ops, layer / activation / loss evaluation, graph construction on shared tracked parameters, RandU / RandN / initializers; back-propagation, Update and Reset only on graphs built from private leaves and shared untracked tensors). Stage A (deterministic): every task runs solo on a fresh setup, then all run as goroutines of which exactly one holds the baton; the baton moves at AST-inserted yield points according to an explicit preemption plan (random switching p in {1/10,1/100,1/1000}, or PCT-style 1-8 change points, optionally waiting for a site inside element generators / RNG draws / backward rules). Oracles: every result bitwise equal to the solo run (shape only for RNG-derived values), reflected state of every shared object unchanged at every context switch and at the end, no panic, each task within 4x its solo step count. Stage B (complement, runtime monitoring): the same scenarios on an uninstrumented -race build with real parallelism. Non-trivial: >= 1 preemption while another task had a library call in flight. Distinct: hash of the (step, site, from, to) switch sequence together with the programs. Also: rejected calls inside the tasks (error words compared with the sequential run, error values held), resets of private results, every task applying the same shape operation to one derived shared tensor, the rng storm (one large random tensor against dozens of small calls)."
}
func (c20) Assumptions() []string {
	return []string{
		"the proviso of the property is enforced by construction: nothing reachable from a shared tracked parameter or from another task's graph is back-propagated or reset",
		"Stage A decides which goroutine proceeds at every yield point; yield points are function / literal entries and loop bodies of qeep (gonum and the Go runtime are not instrumented, so a preemption cannot land inside them)",
		"Stage B interleavings are chosen by the Go scheduler (not controlled, not replayable exactly); the race detector has no false positives",
		"if the library starts goroutines of its own, yields from them are detected (goroutine id) and Stage A is reported as not run for that scenario",
	}
}
func (c20) Extra() map[string]any {
	e := baseExtra()
	e["fault_kinds"] = []string{"preemption (context switch at a yield point inside a library call)", "invalid-call (rejected calls inside the tasks, error values held to the end of the task)"}
	return e
}

/* ---------- environment ---------- */

type env20 struct {
	shared  map[int]tensor.Tensor
	tracked map[int]bool
	ids     []int
	fc      *layers.FC
	acts    []act
	losses  []lossFn
	sgd     *optimizers.SGD
	inits   []layers.Initializer // shared initializer objects (one per kind)
}

func newEnv20(sc *sim.Scenario) (*env20, string) {
	e := &env20{shared: map[int]tensor.Tensor{}, tracked: map[int]bool{}}
	setup := sim.NewPool()
	for _, st := range sc.Steps {
		if st.C != sharedClient {
			continue
		}
		if st.Out < 0 || st.Out >= 1000 || !(st.Op == "tensorof" || sim.IsTensorOp(st.Op)) {
			return nil, "malformed"
		}
		// shared tensors are leaves (tensorof) or results the main goroutine
		// derived from untracked shared leaves before the tasks start
		res := setup.Apply(st)
		if res.Err != nil || res.T == nil {
			if _, d := res.Err.(sim.ErrDangling); d {
				return nil, "dangling"
			}
			return nil, "malformed"
		}
		e.shared[st.Out] = res.T
		e.tracked[st.Out] = st.Op == "tensorof" && st.B
		e.ids = append(e.ids, st.Out)
	}
	if o := sc.CfgInt("fcout"); o > 0 {
		fc, err := layers.NewFC(&layers.FCConfig{Inputs: sc.CfgInt("fcin"), Outputs: o,
			Initializers: map[string]layers.Initializer{"Weight": hInit{sc.Data["fcW"]}, "Bias": hInit{sc.Data["fcB"]}}})
		if err != nil || len(sc.Data["fcW"]) == 0 || len(sc.Data["fcB"]) == 0 {
			return nil, "malformed"
		}
		e.fc = fc
	}
	sm0, _ := activations.NewSoftmax(nil)
	sm1, _ := activations.NewSoftmax(&activations.SoftmaxConfig{Dim: 1})
	e.acts = []act{activations.NewRelu(), activations.NewLeakyRelu(nil), activations.NewSigmoid(), activations.NewTanh(), sm0, sm1}
	e.losses = []lossFn{losses.NewMSE(), losses.NewBCE(), losses.NewCE()}
	e.sgd = optimizers.NewSGD(nil)
	if sc.Cfg["setupbp"] == 1 {
		// the main goroutine finished a back-propagation before the tasks start:
		// the shared parameters hold gradients (and are spent) while the tasks
		// run forward computations on them
		if e.fc != nil && len(e.ids) > 0 {
			if y, err := e.fc.Forward(e.shared[e.ids[0]]); err == nil {
				if err := tensor.BackPropagate(y); err != nil {
					return nil, "malformed"
				}
			}
		}
		for _, id := range e.ids {
			if e.tracked[id] {
				if err := tensor.BackPropagate(e.shared[id].Scale(2)); err != nil {
					return nil, "malformed"
				}
			}
		}
	}
	for k := range c10InitKinds {
		e.inits = append(e.inits, c10Initializer(k))
	}
	return e, ""
}

// fingerprint of everything tasks share.
func (e *env20) fingerprint() uint64 {
	h := sim.NewHash()
	for _, id := range e.ids {
		h = h.Int(id).U64(sim.DeepFP(e.shared[id])).U64(sim.PubFP(e.shared[id]))
	}
	if e.fc != nil {
		h = h.U64(sim.DeepFPAny(e.fc))
		for _, w := range e.fc.Weights() {
			h = h.U64(sim.PubFP(*w.Value))
		}
	}
	for _, a := range e.acts {
		h = h.U64(sim.DeepFPAny(a))
	}
	for _, l := range e.losses {
		h = h.U64(sim.DeepFPAny(l))
	}
	h = h.U64(sim.DeepFPAny(e.sgd))
	return h.Sum()
}

type trun struct {
	pool    *sim.Pool
	obs     []uint64
	notes   []string
	marks   []uint64    // simulated time (relative to the task's start) at which each BackPropagate call began
	rmarks  []uint64    // simulated time at which each random-constructor / Init call began
	rngFP   []uint64    // value fingerprints of the tensors returned by random constructors (>= 4 elements)
	rngSeq  [][]float64 // first elements of each random tensor, normalised to the standard uniform / normal
	bad     string      // a random constructor returned values outside its configured support
	badCall string      // a rejected call misbehaved (accepted, result, changed words)
	held    []heldErr   // error values of rejected calls, held until the task ends
}

// runTask executes one task's program. inCall, when non-nil, is toggled
// around library calls (probe).
func runTask(e *env20, steps []sim.Step, inCall *bool) *trun {
	tr := &trun{pool: sim.NewPool()}
	t0 := sim.Now()
	for id, t := range e.shared {
		tr.pool.T[id] = t
	}
	var epochNodes []int
	// dynamic taint: which values / gradients depend on random draws (the draw
	// order legitimately depends on the schedule, so those are compared by
	// shape / presence only)
	valTaint := map[int]bool{}
	gradTaint := map[int]bool{}
	operands := map[int][]int{}
	upstream := func(root int) []int {
		seen := map[int]bool{}
		var out []int
		var walk func(id int)
		walk = func(id int) {
			if seen[id] {
				return
			}
			seen[id] = true
			out = append(out, id)
			for _, o := range operands[id] {
				walk(o)
			}
		}
		walk(root)
		return out
	}
	for _, st := range steps {
		tainted := st.Op == "randu" || st.Op == "randn" || st.Op == "init"
		for _, id := range st.In {
			tainted = tainted || valTaint[id]
		}
		if st.Op == "update" && len(st.In) > 0 && gradTaint[st.In[0]] {
			tainted = true
		}
		h := sim.NewHash().Str(st.Op)
		var t tensor.Tensor
		var err error
		isTensor := false
		get := func(i int) tensor.Tensor {
			if i < len(st.In) {
				return tr.pool.T[st.In[i]]
			}
			return nil
		}
		if inCall != nil {
			*inCall = true
		}
		switch st.Op {
		case "bad":
			// a rejected call with a shared or private tensor as operand
			if badIndexOf(st.Tag) < 0 {
				err = fmt.Errorf("dangling")
				break
			}
			oracle, msg, errText, he := badVerdict(st.Tag, st.N, get(0))
			if oracle != "" && tr.badCall == "" {
				tr.badCall = fmt.Sprintf("%s: %s", oracle, msg)
			}
			tr.held = append(tr.held, heldErr{he, errText, st.Tag})
			h = h.Str(errText)
		case "fcforward":
			if e.fc == nil || get(0) == nil {
				err = fmt.Errorf("dangling")
			} else {
				t, err = e.fc.Forward(get(0))
			}
			isTensor = true
		case "act":
			if get(0) == nil {
				err = fmt.Errorf("dangling")
			} else {
				t, err = e.acts[st.N%len(e.acts)].Forward(get(0))
			}
			isTensor = true
		case "loss":
			if get(0) == nil || get(1) == nil {
				err = fmt.Errorf("dangling")
			} else {
				t, err = e.losses[st.N%len(e.losses)].Compute(get(0), get(1))
			}
			isTensor = true
		case "init":
			tr.rmarks = append(tr.rmarks, sim.Now()-t0)
			t, err = e.inits[st.N%len(e.inits)].Init(cpI(st.I))
			isTensor = true
		case "backprop":
			if get(0) == nil {
				err = fmt.Errorf("dangling")
			} else {
				tr.marks = append(tr.marks, sim.Now()-t0)
				err = tensor.BackPropagate(get(0))
			}
		case "reset":
			if get(0) != nil {
				get(0).ResetGradContext(st.B)
			}
		case "update":
			if get(0) == nil {
				err = fmt.Errorf("dangling")
			} else {
				slot := get(0)
				err = e.sgd.Update(&slot)
				if err == nil {
					t = slot
					isTensor = true
				}
			}
		default:
			if st.Op == "randu" || st.Op == "randn" {
				tr.rmarks = append(tr.rmarks, sim.Now()-t0)
			}
			res := tr.pool.Apply(st)
			t, err = res.T, res.Err
			isTensor = res.T != nil
			if res.IsRead && tainted && st.Op != "shape" && st.Op != "nelems" {
				// value read of a random tensor
			} else if res.IsRead {
				h = h.F64(res.Scalar).Str(fmt.Sprint(res.Bool))
				for _, d := range res.Ints {
					h = h.Int(d)
				}
			}
		}
		if inCall != nil {
			*inCall = false
		}
		sim.Pause()
		if err == nil && t != nil && (st.Op == "randu" || st.Op == "randn" || st.Op == "init") {
			vals := sim.Values(t)
			if len(vals) >= 4 && !(st.Op == "init" && c10InitKinds[st.N%len(c10InitKinds)] == "full") {
				tr.rngFP = append(tr.rngFP, sim.ValFP(t))
			}
			lo, hi := math.Inf(-1), math.Inf(1)
			switch {
			case st.Op == "randu" && len(st.F) >= 2:
				lo, hi = st.F[0], st.F[1]
			case st.Op == "randn" && len(st.F) >= 2:
				lo, hi = st.F[0]-12*st.F[1], st.F[0]+12*st.F[1]
			case st.Op == "init":
				switch c10InitKinds[st.N%len(c10InitKinds)] {
				case "full":
					lo, hi = 0.75, math.Nextafter(0.75, 1)
				case "uniform":
					lo, hi = -0.05, 0.05
				case "normal":
					lo, hi = -0.6, 0.6
				case "heuniform":
					lo, hi = -math.Sqrt(2), math.Sqrt(2)
				case "henormal":
					lo, hi = -12*math.Sqrt(2./3), 12*math.Sqrt(2./3)
				case "xavieruniform":
					lo, hi = -math.Sqrt(6./5), math.Sqrt(6./5)
				case "xaviernormal":
					lo, hi = -12*math.Sqrt(2./5), 12*math.Sqrt(2./5)
				}
			}
			// normalised head of the tensor: two calls whose underlying variates
			// coincide are not independent draws, whatever their parameters
			if len(vals) >= 4 && !(st.Op == "init" && c10InitKinds[st.N%len(c10InitKinds)] == "full") {
				head := make([]float64, 4)
				uniform := st.Op == "randu" || (st.Op == "init" && strings.HasSuffix(c10InitKinds[st.N%len(c10InitKinds)], "uniform"))
				for i := range head {
					if uniform {
						head[i] = (vals[i] - lo) / (hi - lo)
					} else {
						head[i] = (vals[i] - (lo+hi)/2) / ((hi - lo) / 24)
					}
				}
				tr.rngSeq = append(tr.rngSeq, head)
			}
			for i, v := range vals {
				if !(v >= lo && v < hi) && tr.bad == "" {
					tr.bad = fmt.Sprintf("%s %v (kind %d): element %d = %v outside its configured support [%v, %v)", st.Op, st.F, st.N, i, v, lo, hi)
				}
			}
		}
		switch {
		case err != nil:
			h = h.Str("error:" + err.Error())
		case isTensor && t != nil:
			if st.Out >= 1000 {
				tr.pool.T[st.Out] = t
				epochNodes = append(epochNodes, st.Out)
				valTaint[st.Out] = tainted
				operands[st.Out] = append([]int{}, st.In...)
			}
			if tainted {
				for _, d := range t.Shape() {
					h = h.Int(d)
				}
			} else {
				h = h.U64(sim.PubFP(t))
			}
		}
		if st.Op == "reset" && len(st.In) > 0 {
			gradTaint[st.In[0]] = false
		}
		if st.Op == "backprop" && err == nil {
			up := upstream(st.In[0])
			anyT := false
			for _, id := range up {
				anyT = anyT || valTaint[id]
			}
			if anyT {
				for _, id := range up {
					gradTaint[id] = true
				}
			}
			// gradients of the task's private tensors
			for _, id := range epochNodes {
				pt := tr.pool.T[id]
				g := pt.Gradient()
				if g == nil {
					h = h.Int(id).Byte(0)
					continue
				}
				if gradTaint[id] {
					h = h.Int(id).Int(len(g.Shape()))
				} else {
					h = h.Int(id).U64(sim.ValFP(g))
				}
			}
		}
		sim.Resume()
		tr.obs = append(tr.obs, h.Sum())
	}
	for _, he := range tr.held {
		if he.err != nil && he.err.Error() != he.text && tr.badCall == "" {
			tr.badCall = fmt.Sprintf("rejected-call-error-changed: the error value of a rejected call (%s) read %q when it was returned and reads %q when the task ends", he.where, he.text, he.err.Error())
		}
	}
	return tr
}

// c20badOracle: rejected calls stay rejected calls under every interleaving.
func c20badOracle(runs []*trun) string {
	for i, r := range runs {
		if r != nil && r.badCall != "" {
			return fmt.Sprintf("task %d: %s", i, r.badCall)
		}
	}
	return ""
}

func tasksOf(sc *sim.Scenario) [][]sim.Step {
	n := sc.CfgInt("tasks")
	ts := make([][]sim.Step, n)
	for _, st := range sc.Steps {
		if st.C >= 0 && st.C < n {
			ts[st.C] = append(ts[st.C], st)
		}
	}
	return ts
}

/* ---------- generation ---------- */

// probability of the "big" scenario flavour (large shared tensors): rare in
// stage A (each costs as much as ~200 ordinary scenarios and size-triggered
// parallel code paths show under real parallelism), frequent in stage B
var c20BigP = 0.0025

func init() {
	if !sim.Instrumented() {
		c20BigP = 0.15
	}
	if v := os.Getenv("QV_C20_BIG"); v != "" {
		fmt.Sscan(v, &c20BigP)
	}
}

func (c20) Generate(r *sim.Rand, tier string) *sim.Scenario {
	sc := &sim.Scenario{Cfg: map[string]float64{}, Data: map[string][]float64{}}
	sc.Cfg["rngseed"] = float64(r.Intn(1 << 30))
	ntasks := r.Range(2, 4)
	if r.Bool(0.1) {
		ntasks = r.Range(5, 8) // any number of goroutines
	}
	enum1 := r.Bool(0.0012)
	if tier == "thorough" {
		enum1 = r.Bool(0.008)
	}
	if enum1 {
		ntasks = 2 // small scenario, every single-preemption schedule
	}
	maxSteps := 14
	if tier == "thorough" {
		ntasks = r.Range(2, 6)
		maxSteps = 25
	}
	if enum1 {
		ntasks, maxSteps = 2, 6
		sc.Cfg["enum1"] = 1
	}
	sc.Cfg["tasks"] = float64(ntasks)
	if r.Bool(0.25) {
		sc.Cfg["setupbp"] = 1
	}
	D, O := r.Range(1, 3), r.Range(1, 3)
	sc.Cfg["fcin"], sc.Cfg["fcout"] = float64(D), float64(O)
	sc.Data["fcW"], sc.Data["fcB"] = randData(r, O, false), randData(r, O, false)
	// shared tensors: a common small shape family so that tasks can combine them
	base := randShape(r, 3, 3, 18)
	nsh := r.Range(2, 5)
	sid := 0
	for i := 0; i < nsh; i++ {
		shape := base
		if r.Bool(0.3) {
			shape = randShape(r, 3, 3, 18)
		}
		if i == 0 {
			shape = []int{r.Range(1, 3), D} // a shared FC input
		}
		tracked := i > 0 && r.Bool(0.4)
		sc.Steps = append(sc.Steps, sim.Step{C: sharedClient, Op: "tensorof", Out: sid, I: cpI(shape), F: randData(r, sim.NElems(shape), false), B: tracked})
		sid++
	}
	// shared tensors derived by the main goroutine from untracked shared data
	// (results of reductions, reshapes, products ... have other internal
	// layouts than freshly constructed leaves)
	var derived []int
	if r.Bool(0.5) {
		sh := sim.NewPool()
		var av []avail
		for _, st := range sc.Steps {
			if st.C == sharedClient && !st.B {
				res := sh.Apply(st)
				av = append(av, avail{st.Out, res.T.Shape()})
			}
		}
		// a rank-4 base so that reductions along inner dimensions occur
		b4 := sim.Step{C: sharedClient, Op: "tensorof", Out: sid, I: []int{2, r.Range(1, 2), r.Range(2, 3), r.Range(2, 3)}}
		b4.F = randData(r, sim.NElems(b4.I), false)
		sc.Steps = append(sc.Steps, b4)
		res := sh.Apply(b4)
		av = append(av, avail{sid, res.T.Shape()})
		sid++
		od := genOpts{MaxElems: 40, MaxRank: 5, MaxDim: 3, Comparison: true, PSynth: 0, PTracked: 0, Client: sharedClient,
			Weights: map[string]int{"along": 6, "shape": 3, "reshape": 2, "slice": 2, "arith": 2, "matmul": 2, "dot": 1, "broadcast": 1, "concat": 1, "patch": 1, "unary": 1, "scale": 1, "pow": 0, "elmm": 1, "cmp": 1}}
		// always one reduction of the rank-4 base along a random dimension
		{
			ops := []string{"sumalong", "maxalong", "avgalong", "meanalong", "minalong"}
			st := sim.Step{C: sharedClient, Op: ops[r.Intn(len(ops))], In: []int{b4.Out}, I: []int{r.Intn(4)}, Out: sid}
			if res := sh.Apply(st); res.Err == nil && res.T != nil {
				sc.Steps = append(sc.Steps, st)
				av = append(av, avail{st.Out, res.T.Shape()})
				derived = append(derived, st.Out)
				sid++
			}
		}
		nd := r.Range(1, 3)
		for k, tries := 0, 0; k < nd && tries < 20; tries++ {
			x := av[r.Intn(len(av))]
			ida := &idAlloc{next: sid}
			ps := propose(r, ida, av, x, &od)
			if len(ps) != 1 || ps[0].Out >= 1000 {
				continue
			}
			res := sh.Apply(ps[0])
			if res.Err != nil || res.T == nil {
				continue
			}
			sc.Steps = append(sc.Steps, ps[0])
			av = append(av, avail{ps[0].Out, res.T.Shape()})
			derived = append(derived, ps[0].Out)
			sid = ida.next
			k++
		}
	}
	// "big" flavour: shared tensors large enough for size-triggered code paths
	// (a 32..40 square matrix: m*n*k >= 2^15; a matrix of >= 4096 elements)
	pBig := c20BigP
	if tier == "thorough" && sim.Instrumented() {
		pBig = c20BigP / 4 // thorough scenarios are longer: a stage-A run of the big flavour then costs minutes
	}
	big := r.Bool(pBig)
	rngStorm := !big && r.Bool(c20BigP/8)
	if rngStorm {
		ntasks = r.Range(4, 8)
		sc.Cfg["tasks"] = float64(ntasks)
		sc.Cfg["rngstorm"] = 1
	}
	bigA, bigM, bigMT := -1, -1, -1
	if big {
		n := r.Range(32, 40)
		sc.Steps = append(sc.Steps, sim.Step{C: sharedClient, Op: "tensorof", Out: sid, I: []int{n, n}, F: randData(r, n*n, false)})
		bigA = sid
		sid++
		rows := r.Range(64, 70)
		heavy := !sim.Instrumented() // stage B only: under statement-level yields these cost minutes
		if heavy && r.Bool(0.5) {
			rows = r.Range(128, 140) // >= 8192 elements
		}
		sc.Steps = append(sc.Steps, sim.Step{C: sharedClient, Op: "tensorof", Out: sid, I: []int{rows, 64}, F: randData(r, rows*64, false)})
		bigM = sid
		sid++
		sc.Steps = append(sc.Steps, sim.Step{C: sharedClient, Op: "transpose", In: []int{bigM}, Out: sid})
		bigMT = sid
		sid++
		sc.Cfg["big"] = 1
	}
	sim.SeedLibraryRNG(uint64(sc.Cfg["rngseed"]))
	total := uint64(0)
	allBackprop := r.Bool(0.3) // every task builds and back-propagates private graphs
	var bpMarks, rngMarks [][]uint64
	favInit := r.Intn(len(c10InitKinds)) // the initializer most tasks of this scenario use
	// the schedule family is chosen first so that the programs can suit it
	schedMode := []int{0, 1, 2, 3, 4, 4, 4}[r.Intn(7)]
	stormBias := []int{sim.ClassGen, sim.ClassRNG, sim.ClassRNG, sim.ClassGradRule, sim.ClassBackprop, sim.ClassBackprop, sim.ClassBackprop}[r.Intn(7)]
	if schedMode == 4 && (stormBias == sim.ClassBackprop || stormBias == sim.ClassGradRule) {
		allBackprop = true
	}
	allRNG := schedMode == 4 && stormBias == sim.ClassRNG // every task calls random constructors / initializers
	var sameDerived *sim.Step
	if len(derived) > 0 && r.Bool(0.2) {
		if e0, bad := newEnv20(sc); bad == "" {
			id := derived[r.Intn(len(derived))]
			x := avail{id, e0.shared[id].Shape()}
			od := genOpts{MaxElems: 60, MaxRank: 5, MaxDim: 4, Client: 0, Weights: map[string]int{"shape": 10, "reshape": 2, "broadcast": 2, "along": 2, "slice": 1, "unary": 0, "scale": 0, "pow": 0, "patch": 0, "concat": 0, "arith": 0, "elmm": 0, "dot": 0, "matmul": 0}}
			if ps := propose(r, &idAlloc{next: 900000}, []avail{x}, x, &od); len(ps) == 1 {
				if ps[0].Op == "unsqueeze" && r.Bool(0.5) {
					ps[0].I = []int{len(x.Shape)} // the trailing position
				}
				sameDerived = &ps[0]
			}
		}
	}
	for tk := 0; tk < ntasks; tk++ {
		e, bad := newEnv20(sc)
		if bad != "" {
			sim.Bug("C20 generator: setup %s", bad)
		}
		ids := &idAlloc{next: 1000 * (tk + 1)}
		pool := sim.NewPool()
		shapes := map[int][]int{}
		touch := map[int]bool{} // derived from a shared tracked parameter (never back-propagated)
		rng := map[int]bool{}
		trk := map[int]bool{}
		epoch := map[int]int{}
		cur := 0
		var av []avail
		for _, id := range e.ids {
			pool.T[id] = e.shared[id]
			shapes[id] = e.shared[id].Shape()
			touch[id] = e.tracked[id]
			trk[id] = e.tracked[id]
			epoch[id] = -1
			av = append(av, avail{id, shapes[id]})
		}
		var steps []sim.Step
		class := r.Intn(3) // 0 forward-only, 1 backprop class, 2 rng heavy
		if allBackprop {
			class = 1
		}
		if allRNG {
			class = 2
		}
		o := genOpts{MaxElems: 36, MaxRank: 3, MaxDim: 3, Comparison: true, PSynth: 0.3, PTracked: 0.7, Client: tk}
		badCalls := r.Bool(0.4)
		usable := func() []avail {
			var u []avail
			for _, a := range av {
				if epoch[a.ID] == -1 || epoch[a.ID] == cur {
					u = append(u, a)
				}
			}
			return u
		}
		record := func(st sim.Step, t tensor.Tensor, in []int) {
			pool.T[st.Out] = t
			shapes[st.Out] = t.Shape()
			epoch[st.Out] = cur
			for _, id := range in {
				touch[st.Out] = touch[st.Out] || touch[id]
				rng[st.Out] = rng[st.Out] || rng[id]
				trk[st.Out] = trk[st.Out] || trk[id]
			}
			av = append(av, avail{st.Out, t.Shape()})
		}
		n := r.Range(3, maxSteps)
		if sameDerived != nil {
			// every task performs the very same shape operation on the same derived
			// shared tensor: the same code path on the same object from all sides
			st := *sameDerived
			st.C, st.Out = tk, ids.New()
			if res := pool.Apply(st); res.Err == nil && res.T != nil {
				record(st, res.T, st.In)
				steps = append(steps, st)
			}
		} else if len(derived) > 0 && r.Bool(0.4) {
			// a shape operation on one of the derived shared tensors
			id := derived[r.Intn(len(derived))]
			od := genOpts{MaxElems: 60, MaxRank: 5, MaxDim: 4, Client: tk, Weights: map[string]int{"shape": 8, "reshape": 3, "broadcast": 2, "along": 2, "slice": 1, "unary": 0, "scale": 1, "pow": 0, "patch": 0, "concat": 0, "arith": 1, "elmm": 0, "dot": 0, "matmul": 0}}
			ps := propose(r, ids, usable(), avail{id, shapes[id]}, &od)
			if len(ps) == 1 {
				if res := pool.Apply(ps[0]); res.Err == nil && res.T != nil {
					record(ps[0], res.T, ps[0].In)
					steps = append(steps, ps[0])
				}
			}
		}
		if big {
			// few, heavy steps on the large shared tensors
			n = r.Range(1, 3)
			o.MaxElems, o.MaxDim = 5000, 70
			forced := []sim.Step{
				{C: tk, Op: "matmul", In: []int{bigA, bigA}},
				{C: tk, Op: "sum", In: []int{bigM}, Out: -1},
				{C: tk, Op: "mean", In: []int{bigM}, Out: -1},
				{C: tk, Op: "std", In: []int{bigM}, Out: -1},
				{C: tk, Op: "sumalong", In: []int{bigM}, I: []int{r.Intn(2)}},
				{C: tk, Op: "transpose", In: []int{bigA}},
				{C: tk, Op: "add", In: []int{bigM, bigM}},
				{C: tk, Op: "sum", In: []int{bigM}, Out: -1},
			}
			if !sim.Instrumented() {
				forced = append(forced, sim.Step{C: tk, Op: "matmul", In: []int{bigMT, bigM}}) // right operand of >= 4096 elements
			}
			for _, j := range r.Perm(len(forced))[:r.Range(1, 3)] {
				st := forced[j]
				if st.Out != -1 {
					st.Out = ids.New()
				}
				res := pool.Apply(st)
				if res.Err != nil {
					sim.Bug("C20 generator: forced big step failed: %v", res.Err)
				}
				if res.T != nil {
					record(st, res.T, st.In)
				}
				steps = append(steps, st)
			}
		}
		if rngStorm {
			// one task fills a large random tensor while the others make dozens of
			// small random-constructor calls (state handed round-robin to calls,
			// shared by a long call and a much later one)
			n = 0
			calls, shape := r.Range(15, 60), []int{r.Range(2, 3)}
			if tk == 0 {
				calls, shape = r.Range(1, 3), []int{r.Range(120, 170), r.Range(150, 220)}
				if sim.Instrumented() {
					shape = []int{r.Range(40, 60), r.Range(50, 70)} // stage A: statement-level yields make every element cost a few
				}
			}
			for j := 0; j < calls; j++ {
				st := sim.Step{C: tk, Out: ids.New(), I: cpI(shape), Tag: "rng", B: false}
				if r.Bool(0.5) {
					st.Op, st.F = "randu", []float64{-1, 1}
				} else {
					st.Op, st.F = "randn", []float64{0, 1}
				}
				steps = append(steps, st)
			}
		}
		for k, fails := 0, 0; k < n && fails < 40; {
			x := r.Intn(100)
			switch {
			case badCalls && r.Bool(0.07): // fault invalid-call: a rejected call on a shared or private tensor
				u := usable()
				a := u[r.Intn(len(u))]
				tag, bn := pickBad(r, a.Shape)
				if r.Bool(0.15) {
					// failure paths that report from more than one place at once
					tag = []string{"matmul-batch-both", "bcast-both-fail", "matmul-batch-first"}[r.Intn(3)]
				}
				steps = append(steps, sim.Step{C: tk, Op: "bad", In: []int{a.ID}, Tag: tag, N: bn, Out: -1})
				k++
			case r.Bool(0.04): // a private result is turned into a fresh leaf (or frozen)
				var own []avail
				for _, a := range usable() {
					if a.ID >= 1000 && !rng[a.ID] {
						own = append(own, a)
					}
				}
				if len(own) == 0 {
					fails++
					continue
				}
				a := own[len(own)-1-r.Intn(minInt(3, len(own)))]
				b := r.Bool(0.5)
				pool.T[a.ID].ResetGradContext(b)
				trk[a.ID], touch[a.ID] = b, false
				steps = append(steps, sim.Step{C: tk, Op: "reset", In: []int{a.ID}, B: b, Out: -1})
				k++
			case x < 10 || (class == 1 && x < 25): // private leaf
				shape := base
				if r.Bool(0.4) {
					shape = randShape(r, 3, 3, 18)
				}
				st := sim.Step{C: tk, Op: "tensorof", Out: ids.New(), I: cpI(shape), F: randData(r, sim.NElems(shape), false), B: class == 1 || r.Bool(0.3)}
				res := sim.ApplyOn(st, nil)
				record(st, res.T, nil)
				trk[st.Out] = st.B
				steps = append(steps, st)
				k++
			case x < 30 && e.fc != nil: // layer / activation / loss
				u := usable()
				var cands []avail
				for _, a := range u {
					if len(a.Shape) == 2 && a.Shape[1] == D {
						cands = append(cands, a)
					}
				}
				if len(cands) == 0 {
					fails++
					continue
				}
				xin := cands[r.Intn(len(cands))]
				st := sim.Step{C: tk, Op: "fcforward", In: []int{xin.ID}, Out: ids.New()}
				y, err := e.fc.Forward(pool.T[xin.ID])
				if err != nil {
					fails++
					continue
				}
				record(st, y, []int{xin.ID})
				touch[st.Out], trk[st.Out] = true, true
				if rng[xin.ID] {
					st.Tag = "rng"
				}
				steps = append(steps, st)
				k++
				if r.Bool(0.7) {
					an := r.Intn(6)
					a, err := e.acts[an].Forward(y)
					if err == nil {
						s2 := sim.Step{C: tk, Op: "act", N: an, In: []int{st.Out}, Out: ids.New(), Tag: st.Tag}
						record(s2, a, []int{st.Out})
						steps = append(steps, s2)
						k++
						if r.Bool(0.6) {
							ln := 2
							yp := a
							ypid := s2.Out
							tshape := a.Shape()
							tgt := sim.Step{C: tk, Op: "tensorof", Out: ids.New(), I: cpI(tshape), F: make([]float64, sim.NElems(tshape))}
							for i := range tgt.F {
								tgt.F[i] = r.Float64()
							}
							tt := sim.ApplyOn(tgt, nil).T
							l, err := e.losses[ln].Compute(yp, tt)
							if err == nil {
								record(tgt, tt, nil)
								steps = append(steps, tgt)
								s3 := sim.Step{C: tk, Op: "loss", N: ln, In: []int{ypid, tgt.Out}, Out: ids.New(), Tag: st.Tag}
								record(s3, l, []int{ypid, tgt.Out})
								steps = append(steps, s3)
								k++
							}
						}
					}
				}
			case x < 40 || (class == 2 && x < 60): // random constructors
				st := sim.Step{C: tk, Out: ids.New(), I: cpI(base), Tag: "rng", B: r.Bool(0.5)}
				switch r.Intn(3) {
				case 0:
					lo := []float64{-1, 0, 40, -1e3, 5}[r.Intn(5)]
					st.Op, st.F = "randu", []float64{lo, lo + []float64{2, 1, 1e-3, 10}[r.Intn(4)]}
				case 1:
					st.Op, st.F = "randn", []float64{[]float64{0, 0, 1e6, -50, 3}[r.Intn(5)], []float64{1, 0.01, 5, 1e-3}[r.Intn(4)]}
				default:
					st.Op, st.N = "init", r.Intn(len(c10InitKinds))
					if r.Bool(0.6) {
						st.N = favInit
					}
				}
				var t tensor.Tensor
				var err error
				if st.Op == "init" {
					t, err = e.inits[st.N%len(e.inits)].Init(cpI(st.I))
				} else {
					res := sim.ApplyOn(st, nil)
					t, err = res.T, res.Err
				}
				if err != nil {
					fails++
					continue
				}
				record(st, t, nil)
				rng[st.Out] = true
				trk[st.Out] = st.B || st.Op == "init"
				steps = append(steps, st)
				k++
			case x < 48: // reads on shared or private tensors
				u := usable()
				a := u[r.Intn(len(u))]
				st := sim.Step{C: tk, In: []int{a.ID}, Out: -1}
				switch r.Intn(3) {
				case 0:
					st.Op = "shape"
				case 1:
					st.Op = sim.ScalarReads[r.Intn(len(sim.ScalarReads))]
				default:
					st.Op = "at"
					for _, d := range a.Shape {
						st.I = append(st.I, r.Intn(d))
					}
				}
				if rng[a.ID] && st.Op != "shape" {
					continue
				}
				steps = append(steps, st)
				k++
			case class == 1 && x < 62: // back-propagate a private graph, then update / reset its leaves
				var roots []avail
				for _, a := range usable() {
					if a.ID >= 1000 && trk[a.ID] && !touch[a.ID] {
						roots = append(roots, a)
					}
				}
				if len(roots) == 0 {
					fails++
					continue
				}
				root := roots[len(roots)-1-r.Intn(minInt(3, len(roots)))]
				st := sim.Step{C: tk, Op: "backprop", In: []int{root.ID}, Out: -1}
				if rng[root.ID] {
					st.Tag = "rng"
				}
				if err := tensor.BackPropagate(pool.T[root.ID]); err != nil {
					sim.Bug("C20 generator: BackPropagate failed on a private graph: %v", err)
				}
				steps = append(steps, st)
				k++
				// update + reset private leaves that received a gradient
				old := cur
				cur++
				for _, a := range av {
					if a.ID >= 1000 && epoch[a.ID] == old && pool.T[a.ID].Gradient() != nil && r.Bool(0.4) {
						if st0 := findStep(steps, a.ID); st0 != nil && st0.Op == "tensorof" && !rng[a.ID] {
							slot := pool.T[a.ID]
							if err := e.sgd.Update(&slot); err == nil {
								us := sim.Step{C: tk, Op: "update", In: []int{a.ID}, Out: ids.New()}
								record(us, slot, nil)
								steps = append(steps, us)
								rs := sim.Step{C: tk, Op: "reset", In: []int{us.Out}, B: true, Out: -1}
								slot.ResetGradContext(true)
								trk[us.Out] = true
								steps = append(steps, rs)
								k++
							}
						}
					}
				}
			default: // any forward tensor operation over shared and private tensors
				u := usable()
				xa := u[r.Intn(len(u))]
				if class == 1 && r.Bool(0.7) {
					// prefer the task's own recent tracked results: fan-out and reconvergence
					var own []avail
					for _, a := range u {
						if a.ID >= 1000 && trk[a.ID] && !touch[a.ID] {
							own = append(own, a)
						}
					}
					if len(own) > 0 {
						xa = own[len(own)-1-r.Intn(minInt(3, len(own)))]
					}
				}
				ps := propose(r, ids, u, xa, &o)
				if len(ps) == 0 {
					fails++
					continue
				}
				ok := true
				var outs []tensor.Tensor
				tmp := map[int]tensor.Tensor{}
				for _, st := range ps {
					in := make([]tensor.Tensor, len(st.In))
					for i, id := range st.In {
						if t, has := tmp[id]; has {
							in[i] = t
						} else if t, has := pool.T[id]; has {
							in[i] = t
						} else {
							ok = false
						}
					}
					if !ok {
						break
					}
					res := sim.ApplyOn(st, in)
					if res.Err != nil || res.T == nil {
						ok = false
						break
					}
					tmp[st.Out] = res.T
					outs = append(outs, res.T)
				}
				if !ok {
					fails++
					continue
				}
				for i, st := range ps {
					record(st, outs[i], st.In)
					if sim.IsCreator(st.Op) {
						trk[st.Out] = st.B
					}
					if sim.IsComparison(st.Op) {
						trk[st.Out] = false
					}
					if rng[st.Out] {
						st.Tag = "rng"
					}
					steps = append(steps, st)
				}
				k++
			}
		}
		sc.Steps = append(sc.Steps, steps...)
		// solo step count on a fresh setup
		e2, _ := newEnv20(sc)
		var tr2 *trun
		used, _ := sim.WithBudget(0, func() { tr2 = runTask(e2, steps, nil) })
		sc.Data["solo"] = append(sc.Data["solo"], float64(used))
		total += used
		bpMarks = append(bpMarks, tr2.marks)
		rngMarks = append(rngMarks, tr2.rmarks)
	}
	/* preemption plan */
	if big && schedMode == 0 {
		schedMode = 1 // fingerprints of large shared tensors at every switch: keep the plan short
	}
	sc.Cfg["first"] = float64(r.Intn(ntasks))
	T := int(total)
	if T < 1 {
		T = 1
	}
	switch mode := schedMode; mode {
	case 4: // storm: from a random instant on, EVERY yield of one site class switches task (n times)
		k0 := r.Intn(T)
		bias := stormBias
		if bias == sim.ClassBackprop || bias == sim.ClassGradRule || bias == sim.ClassRNG {
			// start the storm inside a back-propagation (or a random
			// constructor): the first task runs undisturbed until then, so its
			// local time is the global time
			marks := bpMarks
			if bias == sim.ClassRNG {
				marks = rngMarks
			}
			var cands []int
			for tk, m := range marks {
				if len(m) > 0 {
					cands = append(cands, tk)
				}
			}
			if len(cands) > 0 {
				a := cands[r.Intn(len(cands))]
				m := marks[a]
				k0 = int(m[r.Intn(len(m))]) // from the very start of the call: the tasks then advance in lockstep
				if r.Bool(0.5) {
					k0 += r.Intn(150)
				}
				sc.Cfg["first"] = float64(a)
			}
		}
		n := r.Range(20, 400) // statement-level yields: a storm has to last long enough for the storm-tossed tasks to make progress
		for i := 0; i < n; i++ {
			sc.Sched = append(sc.Sched, [2]int{k0, r.Intn(ntasks)})
		}
		sc.Cfg["bias"] = float64(bias)
	case 0: // random switching
		p := []float64{0.1, 0.01, 0.001}[r.Intn(3)]
		k := 0
		for len(sc.Sched) < 1500 {
			gap := 1 + int(math.Log(1-r.Float64())/math.Log(1-p))
			k += gap
			if k >= T+T/4 {
				break
			}
			sc.Sched = append(sc.Sched, [2]int{k, r.Intn(ntasks)})
		}
	default: // PCT-style change points, optionally waiting for an in-flight-state site
		d := r.Range(1, 8)
		var ks []int
		for i := 0; i < d; i++ {
			ks = append(ks, r.Intn(T))
		}
		sort.Ints(ks)
		for _, k := range ks {
			sc.Sched = append(sc.Sched, [2]int{k, r.Intn(ntasks)})
		}
		if mode >= 2 {
			sc.Cfg["bias"] = float64([]int{sim.ClassGen, sim.ClassRNG, sim.ClassGradRule, sim.ClassBackprop, sim.ClassBackprop}[r.Intn(5)])
		}
	}
	return sc
}

func findStep(steps []sim.Step, out int) *sim.Step {
	for i := range steps {
		if steps[i].Out == out {
			return &steps[i]
		}
	}
	return nil
}

/* ---------- execution: stage A ---------- */

// Execute runs the scenario under its plan; with Cfg["enum1"] = 1 it then
// enumerates single-preemption schedules exhaustively (up to a cap, by
// stride): task a runs first and is switched out at yield k in favour of
// task b, for every a, b != a and every k of a's solo run. A violation that
// needs exactly one context switch at one particular yield point cannot be
// missed on such a scenario.
func (prop c20) Execute(sc *sim.Scenario) *sim.Outcome {
	if !sim.Instrumented() {
		return prop.executeRace(sc)
	}
	out := prop.executeOne(sc)
	if sc.Cfg["enum1"] != 1 || out.Violation != nil || out.Discard != "" {
		return out
	}
	solo := sc.Data["solo"]
	nt := sc.CfgInt("tasks")
	if len(solo) < nt {
		return out
	}
	total := 0
	for a := 0; a < nt; a++ {
		total += int(solo[a]) * (nt - 1)
	}
	stride := 1
	const limit = 2500
	if total > limit {
		stride = (total + limit - 1) / limit
	}
	for a := 0; a < nt; a++ {
		for b := 0; b < nt; b++ {
			if b == a {
				continue
			}
			for k := (a + b) % stride; k < int(solo[a]); k += stride {
				v := sc.Clone()
				v.Cfg["enum1"] = 0
				v.Cfg["bias"] = 0
				v.Cfg["first"] = float64(a)
				v.Sched = [][2]int{{k, b}}
				o := prop.executeOne(v)
				out.Probes["enumerated-single-preemption-schedules"]++
				out.SimSteps += o.SimSteps
				out.Faults["preemption"] += o.Faults["preemption"]
				if o.Violation != nil {
					out.Violation = o.Violation
					out.Concrete = v
					return out
				}
			}
		}
	}
	out.Probes["scenarios-with-exhaustive-single-preemption"]++
	if stride == 1 {
		out.Probes["scenarios-with-exhaustive-single-preemption-stride-1"]++
	}
	return out
}

func (prop c20) executeOne(sc *sim.Scenario) *sim.Outcome {
	out := sim.NewOutcome()
	start := sim.Now()
	lh := sim.NewHash()
	sig := sim.NewHash()
	fin := func() *sim.Outcome { return finish(out, lh, sig, start) }
	tasks := tasksOf(sc)
	if len(tasks) < 1 {
		out.Discard = "malformed"
		return out
	}
	for _, st := range sc.Steps {
		sig = sig.Int(st.C).Str(st.Op)
		out.Probes["op/"+st.Op]++
	}
	seed := uint64(sc.Cfg["rngseed"])
	/* solo runs */
	solo := make([]*trun, len(tasks))
	soloSteps := make([]uint64, len(tasks))
	sim.ClearForeign()
	sim.SetOwner(sim.CurrentGID())
	defer sim.SetOwner(0)
	for i, steps := range tasks {
		sim.SeedLibraryRNG(seed)
		e, bad := newEnv20(sc)
		if bad != "" {
			out.Discard = bad
			return out
		}
		sim.Pause()
		fp0 := e.fingerprint()
		sim.Resume()
		var tr *trun
		soloSteps[i], _ = sim.WithBudget(0, func() { tr = runTask(e, steps, nil) })
		solo[i] = tr
		sim.Pause()
		fp1 := e.fingerprint()
		sim.Resume()
		if fp0 != fp1 {
			out.Fail("shared-state-changed", "task %d running alone changed the state of a shared object (a forward computation wrote to a tensor / layer another task can see)", i)
			return fin()
		}
	}
	if sim.ForeignSeen() {
		out.Probes["stage-A-not-run-library-goroutines"]++
		out.Discard = "library-goroutines"
		return out
	}
	/* interleaved run */
	sim.SeedLibraryRNG(seed)
	e, _ := newEnv20(sc)
	sim.Pause()
	fp0 := e.fingerprint()
	sim.Resume()
	s := &sim.Sched{Plan: sc.Sched, Bias: sc.CfgInt("bias")}
	runs := make([]*trun, len(tasks))
	for i := range tasks {
		i := i
		tk := &sim.Task{Budget: soloSteps[i]*4 + 20000}
		tk.Run = func() { runs[i] = runTask(e, tasks[i], &tk.InCall) }
		s.Tasks = append(s.Tasks, tk)
	}
	var blame string
	s.OnSwitch = func(from, to, site int) {
		if blame == "" && e.fingerprint() != fp0 {
			where := "at its end"
			if site >= 0 && site < len(sim.Sites) {
				where = "at " + sim.Sites[site].Pos + " in " + sim.Sites[site].Fn
			}
			blame = fmt.Sprintf("the state of a shared object differs from the initial one when task %d is switched out %s (switch #%d)", from, where, len(s.Switches))
		}
	}
	first := sc.CfgInt("first")
	if first < 0 || first >= len(tasks) {
		first = 0
	}
	s.Run(first)
	out.Faults["preemption"] += len(s.Switches)
	for _, st := range sc.Steps {
		if st.Op == "bad" {
			out.Faults["invalid-call/"+st.Tag]++
		}
	}
	for _, sw := range s.Switches {
		lh = lh.U64(sw.Step).Int(sw.Site).Int(sw.From).Int(sw.To)
		sig = sig.U64(sw.Step).Int(sw.Site).Int(sw.From).Int(sw.To)
		if sw.Site >= 0 {
			switch sim.SiteClass(sw.Site) {
			case sim.ClassGen:
				out.Probes["preemption-inside-element-generator"]++
			case sim.ClassRNG:
				out.Probes["preemption-inside-rng-draw"]++
			case sim.ClassGradRule:
				out.Probes["preemption-inside-backward-rule"]++
			case sim.ClassBackprop:
				out.Probes["preemption-inside-backprop-traversal"]++
			}
		}
	}
	if s.Stuck {
		out.Probes["stage-A-stuck-watchdog"]++
		out.Discard = "stage-A-stuck"
		return out
	}
	if s.Foreign || sim.ForeignSeen() {
		out.Probes["stage-A-not-run-foreign-goroutine"]++
		out.Discard = "library-goroutines"
		return out
	}
	if s.OraclePanic != nil {
		out.Fail("shared-state-corrupt", "reading the shared tensors at a context switch panicked (a tensor another task can see was left inconsistent by a task that was switched out): %v", s.OraclePanic)
		return fin()
	}
	if blame != "" {
		out.Fail("shared-state-changed", "%s", blame)
		return fin()
	}
	for i, tk := range s.Tasks {
		if tk.Panic != nil {
			if b, ok := tk.Panic.(sim.BudgetExceeded); ok {
				out.Fail("task-step-budget", "task %d did not finish within %d simulated steps (solo: %d) under the interleaving", i, b.Budget, soloSteps[i])
			} else if hp, ok := tk.Panic.(sim.HarnessPanic); ok {
				panic(hp)
			} else if str, ok := tk.Panic.(string); ok && len(str) >= 8 && str[:8] == "harness:" {
				panic(str)
			} else {
				out.Fail("panic", "task %d panicked under the interleaving: %v", i, tk.Panic)
			}
			return fin()
		}
	}
	sim.Pause()
	fpEnd := e.fingerprint()
	sim.Resume()
	if fpEnd != fp0 {
		out.Fail("shared-state-changed", "the state of a shared object differs from the initial one after all tasks finished")
		return fin()
	}
	for i := range tasks {
		a, b := solo[i].obs, runs[i].obs
		for k := range a {
			lh = lh.U64(a[k])
			if k >= len(b) || a[k] != b[k] {
				st := tasks[i][k]
				out.Fail("result-differs-from-sequential", "task %d step %d (%s in=%v): the result under the interleaving differs from the result of the same program run alone", i, k, st.Op, st.In)
				return fin()
			}
		}
	}
	if v := c20badOracle(runs); v != "" {
		out.Fail("rejected-call", "%s", v)
		return fin()
	}
	if v := c20rngOracle(runs); v != "" {
		out.Fail("random-constructor", "%s", v)
		return fin()
	}
	if s.InCallAtSwitch > 0 {
		out.Probes["preemption-while-another-call-in-flight"]++
	}
	out.Nontrivial = s.InCallAtSwitch > 0
	return fin()
}

/* ---------- execution: stage B (uninstrumented, -race, real parallelism) ---------- */

func (prop c20) executeRace(sc *sim.Scenario) *sim.Outcome {
	out := sim.NewOutcome()
	lh := sim.NewHash()
	sig := sim.NewHash()
	tasks := tasksOf(sc)
	if len(tasks) < 1 {
		out.Discard = "malformed"
		return out
	}
	seed := uint64(sc.Cfg["rngseed"])
	solo := make([]*trun, len(tasks))
	for i, steps := range tasks {
		sim.SeedLibraryRNG(seed)
		e, bad := newEnv20(sc)
		if bad != "" {
			out.Discard = bad
			return out
		}
		solo[i] = runTask(e, steps, nil)
	}
	reps := 3
	if os.Getenv("QV_RACE_REPS") != "" {
		fmt.Sscan(os.Getenv("QV_RACE_REPS"), &reps)
	}
	for rep := 0; rep < reps; rep++ {
		sim.SeedLibraryRNG(seed)
		e, _ := newEnv20(sc)
		fp0 := e.fingerprint()
		runs := make([]*trun, len(tasks))
		panics := make([]any, len(tasks))
		var wg sync.WaitGroup
		startCh := make(chan struct{})
		for i := range tasks {
			i := i
			wg.Add(1)
			go func() {
				defer wg.Done()
				defer func() {
					if r := recover(); r != nil {
						panics[i] = r
					}
				}()
				<-startCh
				runs[i] = runTask(e, tasks[i], nil)
			}()
		}
		close(startCh)
		wg.Wait()
		out.Faults["real-parallel-execution"]++
		for _, st := range sc.Steps {
			if st.Op == "bad" {
				out.Faults["invalid-call (stage B)/"+st.Tag]++
			}
		}
		for i := range tasks {
			if panics[i] != nil {
				out.Fail("panic", "stage B: task %d panicked when run in parallel: %v", i, panics[i])
				return finish(out, lh, sig, 0)
			}
		}
		if e.fingerprint() != fp0 {
			out.Fail("shared-state-changed", "stage B: the state of a shared object differs from the initial one after the parallel run")
			return finish(out, lh, sig, 0)
		}
		for i := range tasks {
			a, b := solo[i].obs, runs[i].obs
			for k := range a {
				if k >= len(b) || a[k] != b[k] {
					st := tasks[i][k]
					out.Fail("result-differs-from-sequential", "stage B: task %d step %d (%s in=%v): the result of the parallel run differs from the result of the same program run alone", i, k, st.Op, st.In)
					return finish(out, lh, sig, 0)
				}
			}
		}
		if v := c20badOracle(runs); v != "" {
			out.Fail("rejected-call", "stage B: %s", v)
			return finish(out, lh, sig, 0)
		}
		if v := c20rngOracle(runs); v != "" {
			out.Fail("random-constructor", "stage B: %s", v)
			return finish(out, lh, sig, 0)
		}
	}
	out.Nontrivial = true
	for _, st := range sc.Steps {
		sig = sig.Int(st.C).Str(st.Op)
	}
	return finish(out, lh, sig, 0)
}

func (c20) Shrinks(sc *sim.Scenario) []*sim.Scenario {
	var out []*sim.Scenario
	// fewer preemptions first (halves, then single entries)
	if n := len(sc.Sched); n > 0 {
		if n > 1 {
			a := sc.Clone()
			a.Sched = a.Sched[:n/2]
			b := sc.Clone()
			b.Sched = b.Sched[n/2:]
			out = append(out, a, b)
		}
		if n <= 24 {
			for i := 0; i < n; i++ {
				c := sc.Clone()
				c.Sched = append(c.Sched[:i], c.Sched[i+1:]...)
				out = append(out, c)
			}
		}
	}
	// drop whole tasks (renumbering), then steps
	nt := sc.CfgInt("tasks")
	for t := nt - 1; t >= 0 && nt > 1; t-- {
		c := sc.Clone()
		var keep []sim.Step
		for _, st := range c.Steps {
			if st.C == t {
				continue
			}
			if st.C > t && st.C != sharedClient {
				st.C--
			}
			keep = append(keep, st)
		}
		c.Steps = keep
		c.Cfg["tasks"] = float64(nt - 1)
		var sched [][2]int
		for _, e := range c.Sched {
			if e[1] == t {
				continue
			}
			if e[1] > t {
				e[1]--
			}
			sched = append(sched, e)
		}
		c.Sched = sched
		if int(c.Cfg["first"]) >= nt-1 {
			c.Cfg["first"] = 0
		}
		out = append(out, c)
	}
	for i := len(sc.Steps) - 1; i >= 0; i-- {
		if sc.Steps[i].C == sharedClient {
			continue
		}
		out = append(out, sim.DropStep(sc, i))
	}
	return out
}

// c20rngOracle: random constructors called concurrently must still honour
// their configured support, and no two calls (of any task) may return the
// same tensor.
func c20rngOracle(runs []*trun) string {
	seen := map[uint64]int{}
	for i, r := range runs {
		if r == nil {
			continue
		}
		if r.bad != "" {
			return fmt.Sprintf("task %d: %s", i, r.bad)
		}
		for _, fp := range r.rngFP {
			if j, dup := seen[fp]; dup {
				return fmt.Sprintf("tasks %d and %d received element-wise identical tensors from random constructors", j, i)
			}
			seen[fp] = i
		}
	}
	type hd struct {
		task int
		v    []float64
	}
	var heads []hd
	for i, r := range runs {
		if r == nil {
			continue
		}
		for _, h := range r.rngSeq {
			heads = append(heads, hd{i, h})
		}
	}
	for a := 0; a < len(heads); a++ {
		for b := a + 1; b < len(heads); b++ {
			same := true
			for k := 0; k < 4; k++ {
				x, y := heads[a].v[k], heads[b].v[k]
				if !(math.Abs(x-y) <= 1e-9*(1+math.Abs(x))) {
					same = false
					break
				}
			}
			if same {
				return fmt.Sprintf("two random-constructor calls (tasks %d and %d) returned tensors whose first four elements are the same underlying variates (%v): the draws are not independent", heads[a].task, heads[b].task, heads[a].v)
			}
		}
	}
	return ""
}
