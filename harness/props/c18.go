package props

import (
	"fmt"
	"math"
	"sort"
	"strings"

	"github.com/sahandsafizadeh/qeep/component/initializers"
	"github.com/sahandsafizadeh/qeep/tensor"

	"qverif/sim"
)

// C18 — initializers and random constructors honour shape, support, scale.
//
// Cfg: rngseed. Steps: op "draw", Tag = kind (full | uniform | normal |
// heuniform | henormal | xavieruniform | xaviernormal | randu | randn),
// I = shape, F = parameters (value | lower, upper | mean, std | fanIn[, fanOut]),
// B = nil config (defaults) for full/uniform/normal, tracked flag for
// randu/randn; C = client. Pools are keyed by (kind, parameters).
type c18 struct{}

func init() { sim.Register(c18{}) }

func (c18) ID() string    { return "C18" }
func (c18) Level() string { return "exploration" }
func (c18) Rule() string {
	return "the library's only source of nondeterminism (the process-global x/exp/rand source behind gonum's distuv) is pinned through its seed seam, so one run seed is one exactly repeatable sample. A run is a history of 50-400 calls to the 7 initializers and RandU / RandN from 1-3 clients in a scheduler-chosen order, with random shapes (rank 0-4), random valid parameters / fan values and nil configs; 1-3 focus configurations are drawn until their pool holds >= 20000 elements. Deterministic checks on every call (shape, tracking, support with the documented bound, Full constant, fresh tensors); statistical checks per full pool at 7 standard errors of the configured distribution (mean, variance, Kolmogorov-Smirnov distance <= 4.5/sqrt(n), lag-1 autocorrelation in row-major order, correlation between same positions of consecutive calls). Non-trivial: a run in which >= 1 pool reached the threshold. Distinct: hash of (kind, parameter bucket) of the full pools and the call-kind sequence. Also: one initializer object and one shape slice per configuration / rank reused for all calls, rejected calls between the draws, a result that is the very object handed out earlier, rare runs of 1200-3000 small calls."
}
func (c18) Assumptions() []string {
	return []string{
		"the simulator's contribution is owning the RNG seed and the call order; the one fault injected is the caller overwriting the configuration struct it passed to a constructor (the configured parameters are those at construction)",
		"statistical thresholds: 7 standard errors (two-sided tail 2.6e-12 per statistic) computed from the configured distribution; KS threshold 4.5/sqrt(n) (tail about 5e-18)",
		"repeated values inside a uniform pool are tolerated up to 3 (53-bit draws; birthday bound 2e-8 per pool), inside a normal pool of <= 60000 up to 12 (the ziggurat sampler has about 2^32 distinct outputs: expected repeats n^2/8.6e9 < 0.5), inside one tensor of >= 4096 elements up to 10",
		"if re-seeding with the same value does not reproduce the same tensor (random state the seed does not reach) the oracles still apply; the run is flagged by a probe and a failure is confirmed from a fresh process",
	}
}
func (c18) Extra() map[string]any {
	e := baseExtra()
	e["fault_kinds"] = []string{"alias-scribble on the configuration struct between constructing an initializer and calling Init", "reseed (seam self-test only)", "invalid-call (draws with impossible shapes or parameters, rejected optimizer steps and tensor operations between the draws)", "one initializer object / one shape slice reused for many calls"}
	return e
}

var c18Kinds = []string{"full", "uniform", "normal", "heuniform", "henormal", "xavieruniform", "xaviernormal", "randu", "randn"}

const c18Pool = 20000

func c18params(r *sim.Rand, kind string) (f []float64, nilConf bool) {
	switch kind {
	case "full":
		if r.Bool(0.25) {
			return nil, true
		}
		if r.Bool(0.15) {
			return []float64{[]float64{math.Copysign(0, -1), 1e-310, -1e300, 1}[r.Intn(4)]}, false
		}
		return []float64{r.Value(true)}, false
	case "uniform", "randu":
		if kind == "uniform" && r.Bool(0.25) {
			return nil, true
		}
		if r.Bool(0.3) {
			sp := [][]float64{{0, 1}, {-1, 0}, {0, 0.05}, {-0.05, 0}, {-1, 1}, {0, 1e-3}, {1, 2}}
			return cpF(sp[r.Intn(len(sp))]), false
		}
		lo := r.Uniform(-3, 3)
		return []float64{lo, lo + r.LogUniform(1e-3, 10)}, false
	case "normal", "randn":
		if kind == "normal" && r.Bool(0.25) {
			return nil, true
		}
		if r.Bool(0.3) {
			sp := [][]float64{{0, 1}, {0, 0.05}, {1, 1}, {-2, 0.5}, {0, 1e-3}, {3, 0.1}, {0.05, 0.05}}
			return cpF(sp[r.Intn(len(sp))]), false
		}
		return []float64{r.Uniform(-5, 5), r.LogUniform(1e-3, 10)}, false
	case "heuniform", "henormal":
		return []float64{float64(fan(r))}, false
	default:
		return []float64{float64(fan(r)), float64(fan(r))}, false
	}
}

func fan(r *sim.Rand) int {
	switch r.Intn(3) {
	case 0:
		return r.Range(1, 4)
	case 1:
		return r.Range(5, 64)
	}
	return r.Range(65, 512)
}

var c18BadCat = []string{"creator-shape", "creator-params", "creator-shape", "creator-params", "update-nil-pointer", "update-nil-tensor", "update-no-gradient", "backprop-nil", "bcast-second-fails", "matmul-batch-both", "concat-two-dims-after", "reshape-count"}

func (c18) Generate(r *sim.Rand, tier string) *sim.Scenario {
	sc := &sim.Scenario{Cfg: map[string]float64{}}
	sc.Cfg["rngseed"] = float64(r.Uint64() >> 12)
	nclients := r.Range(1, 3)
	nfocus := r.Range(1, 2)
	if r.Bool(0.3) {
		nfocus = 2
	}
	if tier == "thorough" {
		nfocus = r.Range(1, 3)
	}
	type focus struct {
		kind string
		f    []float64
		nilc bool
		left int
		trk  bool
	}
	var fs []*focus
	for i := 0; i < nfocus; i++ {
		k := c18Kinds[1+r.Intn(len(c18Kinds)-1)]
		f, nc := c18params(r, k)
		if i > 0 && r.Bool(0.4) {
			// a sibling of the first focus: same family and same scale, another
			// location (state parked between calls is keyed by some but not all parameters)
			p0 := fs[0]
			if (p0.kind == "normal" || p0.kind == "randn") && !p0.nilc && len(p0.f) == 2 {
				k, nc = []string{"normal", "randn"}[r.Intn(2)], false
				f = []float64{p0.f[0] + []float64{50, -7, 1000}[r.Intn(3)], p0.f[1]}
			} else if (p0.kind == "uniform" || p0.kind == "randu") && !p0.nilc && len(p0.f) == 2 {
				k, nc = []string{"uniform", "randu"}[r.Intn(2)], false
				sh := []float64{40, -9, 3}[r.Intn(3)]
				f = []float64{p0.f[0] + sh, p0.f[1] + sh}
			}
		}
		fs = append(fs, &focus{k, f, nc, c18Pool, r.Bool(0.5)})
	}
	pOther := []float64{0.05, 0.2, 0.4}[r.Intn(3)]
	pBad := []float64{0, 0.1, 0.3}[r.Intn(3)]
	if r.Bool(0.4) {
		sc.Cfg["reusebuf"] = 1
	}
	if r.Bool(0.5) {
		sc.Cfg["reuseinit"] = 1
	}
	if r.Bool(0.002) {
		// a very large pool of one normal configuration (the far tail needs
		// hundreds of thousands of draws to show)
		f := fs[0]
		if f.kind != "normal" && f.kind != "randn" && f.kind != "henormal" && f.kind != "xaviernormal" {
			f.kind = []string{"normal", "randn", "henormal", "xaviernormal"}[r.Intn(4)]
			f.f, f.nilc = c18params(r, f.kind)
		}
		for k, n := 0, r.Range(16, 22); k < n; k++ {
			st := sim.Step{C: 0, Op: "draw", Out: -1, Tag: f.kind, F: cpF(f.f), B: f.nilc, I: []int{r.Range(19000, 21000)}}
			if f.kind == "randu" || f.kind == "randn" {
				st.B = f.trk
			}
			sc.Steps = append(sc.Steps, st)
		}
		f.left = 0
	} else if r.Bool(0.01) {
		// a long-lived initializer / constructor: a few thousand small calls with
		// one configuration before the ordinary workload (state that only matters
		// after many calls: counters, periodic re-derivation of the stream, ...)
		f := fs[0]
		for k, n := 0, r.Range(1200, 3000); k < n; k++ {
			st := sim.Step{C: 0, Op: "draw", Out: -1, Tag: f.kind, F: cpF(f.f), B: f.nilc, I: []int{r.Range(1, 3)}}
			if f.kind == "randu" || f.kind == "randn" {
				st.B = f.trk
			}
			f.left -= st.I[0]
			sc.Steps = append(sc.Steps, st)
		}
	}
	for calls := 0; calls < 400; calls++ {
		var live []*focus
		for _, f := range fs {
			if f.left > 0 {
				live = append(live, f)
			}
		}
		if len(live) == 0 {
			break
		}
		if r.Bool(pBad) {
			// fault invalid-call: a rejected call between the draws — the next draw
			// of the focus configuration, but with an impossible shape; or a
			// rejected constructor, optimizer step or tensor operation
			b := sim.Step{C: r.Intn(nclients), Op: "bad", Out: -1}
			if r.Bool(0.5) {
				f := live[r.Intn(len(live))]
				b.Tag, b.F, b.B = f.kind, cpF(f.f), f.nilc
				if f.kind == "randu" || f.kind == "randn" {
					b.B = f.trk
				}
				b.I = [][]int{{0}, {3, -1}, {2, 0}, {-4}}[r.Intn(4)]
			} else {
				b.Tag = "cat:" + c18BadCat[r.Intn(len(c18BadCat))]
				b.N = r.Intn(1 << 16)
			}
			sc.Steps = append(sc.Steps, b)
		}
		st := sim.Step{C: r.Intn(nclients), Op: "draw", Out: -1}
		if r.Bool(pOther) {
			st.Tag = c18Kinds[r.Intn(len(c18Kinds))]
			st.F, st.B = c18params(r, st.Tag)
			if st.Tag == "randu" || st.Tag == "randn" {
				st.B = r.Bool(0.5)
			}
			st.I = randShape(r, 4, 5, 200)
			if r.Bool(0.15) {
				st.I = randShape(r, 6, 3, 200) // ranks 5-6, many size-1 dimensions
			}
		} else {
			f := live[r.Intn(len(live))]
			st.Tag, st.F, st.B = f.kind, cpF(f.f), f.nilc
			if f.kind == "randu" || f.kind == "randn" {
				st.B = f.trk
			}
			// mostly large tensors so that the pool fills within the call budget
			if r.Bool(0.1) {
				st.I = []int{[]int{1, 3, 5, 7, 9}[r.Intn(5)]} // odd element counts
			} else if r.Bool(0.8) {
				st.I = []int{r.Range(2, 8), r.Range(2, 8), r.Range(2, 10)}
				if r.Bool(0.3) {
					st.I = []int{r.Range(100, 600)}
				} else if r.Bool(0.3) {
					st.I = []int{r.Range(2, 5), r.Range(2, 5), r.Range(2, 5), r.Range(2, 6)}
				} else if r.Bool(0.2) {
					st.I = []int{r.Range(1, 3), r.Range(1, 3), r.Range(1, 3), r.Range(1, 3), r.Range(2, 4), r.Range(2, 5)}
				} else if r.Bool(0.2) {
					st.I = []int{r.Range(17, 40), r.Range(17, 30)}
				} else if r.Bool(0.12) {
					st.I = []int{r.Range(128, 150), r.Range(128, 140)} // one call of 16k-21k elements
				}
			} else {
				st.I = randShape(r, 4, 5, 200)
			}
			f.left -= sim.NElems(st.I)
		}
		if st.Tag != "randu" && st.Tag != "randn" && !st.B && r.Bool(0.3) {
			st.N = 1 // alias-scribble on the config struct between construction and Init
		}
		sc.Steps = append(sc.Steps, st)
	}
	return sc
}

type pool18 struct {
	kind   string
	f      []float64
	lo, hi float64 // uniform support
	mu, sd float64 // normal parameters
	unif   bool
	z      []float64 // standardised samples in draw order
	// consecutive-call correlation
	prev []float64
	cc   float64
	ccn  int
	r1   float64 // within-tensor lag-1 products
	r1n  int
}

// c18draw issues one call. bufs, when non-nil, is the caller's set of shape
// buffers, one per rank, refilled and passed again for every call (a caller
// that loops over layer sizes with one slice).
type initer interface {
	Init(shape []int) (tensor.Tensor, error)
}

// objs, when non-nil, is the caller's set of initializer objects: one object
// per configuration serves every call with that configuration (one initializer
// for many layers) instead of a new object per call.
func c18draw(st sim.Step, bufs map[int][]int, objs map[string]initer) (t tensor.Tensor, err error, p pool18, random bool) {
	key := fmt.Sprint(st.Tag, st.F, st.B)
	shared := func(in initer) initer {
		if objs == nil {
			return in
		}
		if c, ok := objs[key]; ok {
			return c
		}
		objs[key] = in
		return in
	}

	shape := cpI(st.I)
	if shape == nil {
		shape = []int{}
	}
	if bufs != nil && len(shape) > 0 {
		b, ok := bufs[len(shape)]
		if !ok {
			b = make([]int, len(shape))
			bufs[len(shape)] = b
		}
		copy(b, shape)
		shape = b
	}
	f := func(i int) float64 {
		if i < len(st.F) {
			return st.F[i]
		}
		return 0
	}
	p.kind, p.f = st.Tag, st.F
	switch st.Tag {
	case "full":
		var in *initializers.Full
		if st.B {
			in = initializers.NewFull(nil)
		} else {
			cf := &initializers.FullConfig{Value: f(0)}
			in = initializers.NewFull(cf)
			if st.N == 1 {
				cf.Value = -12345
			}
		}
		t, err = shared(in).Init(shape)
		return
	case "uniform":
		var in *initializers.Uniform
		p.lo, p.hi = f(0), f(1)
		if st.B {
			in, err = initializers.NewUniform(nil)
			p.lo, p.hi = -0.05, 0.05
		} else {
			cf := &initializers.UniformConfig{Lower: f(0), Upper: f(1)}
			in, err = initializers.NewUniform(cf)
			if st.N == 1 {
				cf.Lower, cf.Upper = 37, 38
			}
		}
		if err == nil {
			t, err = shared(in).Init(shape)
		}
		p.unif = true
	case "normal":
		var in *initializers.Normal
		p.mu, p.sd = f(0), f(1)
		if st.B {
			in, err = initializers.NewNormal(nil)
			p.mu, p.sd = 0, 0.05
		} else {
			cf := &initializers.NormalConfig{Mean: f(0), StdDev: f(1)}
			in, err = initializers.NewNormal(cf)
			if st.N == 1 {
				cf.Mean, cf.StdDev = 1e6, 1e-9
			}
		}
		if err == nil {
			t, err = shared(in).Init(shape)
		}
	case "heuniform":
		cf := &initializers.HeUniformConfig{FanIn: int(f(0))}
		in, e := initializers.NewHeUniform(cf)
		if st.N == 1 {
			cf.FanIn = 1 << 20
		}
		err = e
		if err == nil {
			t, err = shared(in).Init(shape)
		}
		r := math.Sqrt(6 / f(0))
		p.lo, p.hi, p.unif = -r, r, true
	case "henormal":
		cf := &initializers.HeNormalConfig{FanIn: int(f(0))}
		in, e := initializers.NewHeNormal(cf)
		if st.N == 1 {
			cf.FanIn = 1 << 20
		}
		err = e
		if err == nil {
			t, err = shared(in).Init(shape)
		}
		p.mu, p.sd = 0, math.Sqrt(2/f(0))
	case "xavieruniform":
		cf := &initializers.XavierUniformConfig{FanIn: int(f(0)), FanOut: int(f(1))}
		in, e := initializers.NewXavierUniform(cf)
		if st.N == 1 {
			cf.FanIn, cf.FanOut = 1<<20, 1<<20
		}
		err = e
		if err == nil {
			t, err = shared(in).Init(shape)
		}
		r := math.Sqrt(6 / (f(0) + f(1)))
		p.lo, p.hi, p.unif = -r, r, true
	case "xaviernormal":
		cf := &initializers.XavierNormalConfig{FanIn: int(f(0)), FanOut: int(f(1))}
		in, e := initializers.NewXavierNormal(cf)
		if st.N == 1 {
			cf.FanIn, cf.FanOut = 1<<20, 1<<20
		}
		err = e
		if err == nil {
			t, err = shared(in).Init(shape)
		}
		p.mu, p.sd = 0, math.Sqrt(2/(f(0)+f(1)))
	case "randu":
		t, err = tensor.RandU(shape, f(0), f(1), &tensor.Config{Device: tensor.CPU, GradTrack: st.B})
		p.lo, p.hi, p.unif = f(0), f(1), true
	case "randn":
		t, err = tensor.RandN(shape, f(0), f(1), &tensor.Config{Device: tensor.CPU, GradTrack: st.B})
		p.mu, p.sd = f(0), f(1)
	default:
		err = fmt.Errorf("malformed")
	}
	random = true
	return
}

func normCDF(z float64) float64 { return 0.5 * math.Erfc(-z/math.Sqrt2) }

func (prop c18) Execute(sc *sim.Scenario) *sim.Outcome {
	out := sim.NewOutcome()
	start := sim.Now()
	lh := sim.NewHash()
	sig := sim.NewHash()
	fin := func() *sim.Outcome { return finish(out, lh, sig, start) }
	seed := uint64(sc.Cfg["rngseed"])
	/* the seam is the sole source: same seed, same tensor */
	probe := func() uint64 {
		sim.SeedLibraryRNG(seed)
		a, err1 := tensor.RandU([]int{7}, 0, 1, nil)
		b, err2 := tensor.RandN([]int{5}, 0, 1, nil)
		if err1 != nil || err2 != nil {
			sim.Bug("C18: RandU / RandN probe failed: %v %v", err1, err2)
		}
		return sim.ValFP(a) ^ sim.SplitMix64(sim.ValFP(b))
	}
	sim.Pause()
	if probe() != probe() {
		// The library keeps random state the seed does not reach (a cached
		// variate, a private generator). Every oracle below stays sound — a
		// value outside the configured support is a violation whatever produced
		// it — but a failing history is then only replayable from a fresh
		// process, which is how the driver confirms it.
		out.Probes["rng-state-not-reset-by-seed"]++
	}
	sim.Resume()
	out.Faults["reseed (seam self-test)"]++
	sim.SeedLibraryRNG(seed)
	var bufs map[int][]int
	if sc.Cfg["reusebuf"] == 1 {
		bufs = map[int][]int{}
		out.Faults["caller-reuses-one-shape-slice"]++
	}
	var handed []tensor.Tensor // every tensor handed out so far in this run
	var objs map[string]initer
	if sc.Cfg["reuseinit"] == 1 {
		objs = map[string]initer{}
		out.Faults["one-initializer-object-for-many-calls"]++
	}
	pools := map[string]*pool18{}
	var poolOrder []string
	var seen []uint64
	for si, st := range sc.Steps {
		where := fmt.Sprintf("call %d (c%d %s %v shape %v nil-config=%v)", si, st.C, st.Tag, st.F, st.I, st.B)
		if st.Op == "bad" {
			sig = sig.Str("bad:" + st.Tag)
			if strings.HasPrefix(st.Tag, "cat:") {
				kind := strings.TrimPrefix(st.Tag, "cat:")
				if badIndexOf(kind) < 0 {
					out.Discard = "malformed"
					return out
				}
				oracle, msg, _, _ := badVerdict(kind, st.N, nil)
				out.Faults["invalid-call/"+kind]++
				if oracle != "" {
					out.Fail(oracle, "%s: %s", where, msg)
					return fin()
				}
				continue
			}
			for rep := 0; rep < 2; rep++ {
				t, err, _, _ := c18draw(st, bufs, objs)
				if err != nil && err.Error() == "malformed" {
					out.Discard = "malformed"
					return out
				}
				_ = t
				if err == nil {
					out.Fail("invalid-call-accepted", "%s: a call with an impossible shape returned no error", where)
					return fin()
				}
			}
			out.Faults["invalid-call/draw-with-impossible-shape"]++
			continue
		}
		if st.Op != "draw" {
			out.Discard = "malformed"
			return out
		}
		sig = sig.Str(st.Tag)
		t, err, p, random := c18draw(st, bufs, objs)
		if st.N == 1 {
			out.Faults["alias-scribble/config-struct"]++
		}
		if err != nil && err.Error() == "malformed" {
			out.Discard = "malformed"
			return out
		}
		if err != nil || t == nil {
			out.Fail("valid-call-rejected", "%s: returned error %v", where, err)
			return fin()
		}
		for j, e := range handed {
			if e == t {
				out.Fail("returned-earlier-tensor", "%s: returned the very tensor object already handed out earlier in this run (result #%d) (tracked tensors carry gradient state: two holders of one object interfere)", where, j)
				return fin()
			}
		}
		handed = append(handed, t)
		sim.Pause()
		shape := st.I
		if shape == nil {
			shape = []int{}
		}
		if !sim.ShapeEq(t.Shape(), shape) {
			out.Fail("shape", "%s: result shape %v", where, t.Shape())
			sim.Resume()
			return fin()
		}
		vals := sim.Values(t)
		fp := sim.ValFP(t)
		lh = lh.U64(fp)
		sim.Resume()
		/* tracking: observable through back-propagation */
		wantTracked := true
		if st.Tag == "randu" || st.Tag == "randn" {
			wantTracked = st.B
		}
		if err := tensor.BackPropagate(t); err != nil {
			out.Fail("tracking", "%s: BackPropagate on the fresh tensor failed: %v", where, err)
			return fin()
		}
		if (t.Gradient() != nil) != wantTracked {
			out.Fail("tracking", "%s: tracked=%v, expected %v", where, t.Gradient() != nil, wantTracked)
			return fin()
		}
		if !random {
			want := 0.0
			if !st.B && len(st.F) > 0 {
				want = st.F[0]
			}
			for i, v := range vals {
				if math.Float64bits(v) != math.Float64bits(want) {
					out.Fail("full-constant", "%s: element %d is %v (bits %x), expected %v (bits %x)", where, i, v, math.Float64bits(v), want, math.Float64bits(want))
					return fin()
				}
			}
			continue
		}
		/* support */
		if p.unif {
			for i, v := range vals {
				if !(v >= p.lo && v < p.hi) {
					out.Fail("support", "%s: element %d = %v outside [%v, %v)", where, i, v, p.lo, p.hi)
					return fin()
				}
			}
		} else {
			for i, v := range vals {
				if math.IsNaN(v) || math.IsInf(v, 0) || math.Abs(v-p.mu) > 12*p.sd {
					out.Fail("support", "%s: element %d = %v is more than 12 standard deviations from the mean %v (sd %v)", where, i, v, p.mu, p.sd)
					return fin()
				}
			}
		}
		/* positions are independent draws: exact repeats inside one large tensor */
		if len(vals) >= 4096 {
			sv := append([]float64{}, vals...)
			sort.Float64s(sv)
			dup := 0
			for i := 1; i < len(sv); i++ {
				if sv[i] == sv[i-1] {
					dup++
				}
			}
			if dup > 10 {
				out.Fail("position-dependence", "%s: %d of %d elements repeat the value of another position of the same tensor", where, dup, len(vals))
				return fin()
			}
			out.Probes["large-tensor-calls"]++
		}
		/* fresh on every call */
		if len(vals) >= 4 {
			for _, s := range seen {
				if s == fp {
					out.Fail("not-fresh", "%s: returned exactly the same values as an earlier call", where)
					return fin()
				}
			}
			seen = append(seen, fp)
		}
		key := fmt.Sprintf("%s|%v|%v|%v|%v", p.kind, p.lo, p.hi, p.mu, p.sd)
		pl := pools[key]
		if pl == nil {
			cp := p
			pl = &cp
			pools[key] = pl
			poolOrder = append(poolOrder, key)
		}
		z := make([]float64, len(vals))
		for i, v := range vals {
			if pl.unif {
				z[i] = ((v-pl.lo)/(pl.hi-pl.lo) - 0.5) * math.Sqrt(12)
			} else {
				z[i] = (v - pl.mu) / pl.sd
			}
		}
		for i := 0; i+1 < len(z); i++ {
			pl.r1 += z[i] * z[i+1]
			pl.r1n++
		}
		if pl.prev != nil {
			n := len(z)
			if len(pl.prev) < n {
				n = len(pl.prev)
			}
			for i := 0; i < n; i++ {
				pl.cc += z[i] * pl.prev[i]
				pl.ccn++
			}
		}
		pl.prev = z
		pl.z = append(pl.z, z...)
	}
	/* statistics per full pool */
	full := 0
	sort.Strings(poolOrder)
	for _, key := range poolOrder {
		pl := pools[key]
		n := len(pl.z)
		if n < c18Pool {
			continue
		}
		full++
		sig = sig.Str(pl.kind).Int(int(math.Log2(pl.hi-pl.lo+pl.sd+1e-9) * 2))
		fn := float64(n)
		mean := 0.0
		for _, v := range pl.z {
			mean += v
		}
		mean /= fn
		va := 0.0
		for _, v := range pl.z {
			va += (v - mean) * (v - mean)
		}
		va /= fn - 1
		desc := fmt.Sprintf("pool %s (n=%d)", key, n)
		// z is standardised: mean 0, variance 1 under the configured distribution
		if math.Abs(mean) > 7/math.Sqrt(fn) {
			out.Fail("mean", "%s: standardised sample mean %v is beyond 7 standard errors (%v)", desc, mean, 7/math.Sqrt(fn))
			return fin()
		}
		// Var(s^2) = (mu4 - 1)/n ; mu4 = 9/5 for the uniform, 3 for the normal
		mu4 := 3.0
		if pl.unif {
			mu4 = 9.0 / 5
		}
		if se := math.Sqrt((mu4 - 1) / fn); math.Abs(va-1) > 7*se {
			out.Fail("variance", "%s: sample variance is %v times the configured one (7 standard errors = +-%v)", desc, va, 7*se)
			return fin()
		}
		// far tail of a large normal pool: among n >= 300000 standardised draws
		// about n * 6.3e-5 lie beyond 4 (19 or more expected; none at all has
		// probability below 1e-8)
		if !pl.unif && n >= 300000 {
			far := 0
			for _, v := range pl.z {
				if math.Abs(v) > 4 {
					far++
				}
			}
			out.Probes["normal-pools-of-300000-or-more"]++
			if far == 0 {
				out.Fail("normal-tail-missing", "%s: none of the %d draws lies beyond 4 standard deviations from the mean; about %.0f are expected", desc, n, fn*6.334e-5)
				return fin()
			}
		}
		// Kolmogorov-Smirnov
		s := append([]float64{}, pl.z...)
		sort.Float64s(s)
		dmax := 0.0
		rep := 0
		for i, v := range s {
			var F float64
			if pl.unif {
				F = v/math.Sqrt(12) + 0.5
			} else {
				F = normCDF(v)
			}
			if d := math.Abs(F - float64(i)/fn); d > dmax {
				dmax = d
			}
			if d := math.Abs(F - float64(i+1)/fn); d > dmax {
				dmax = d
			}
			if i > 0 && s[i-1] == v {
				rep++
			}
		}
		if dmax > 4.5/math.Sqrt(fn) {
			out.Fail("distribution", "%s: Kolmogorov-Smirnov distance to the configured distribution is %v (threshold %v)", desc, dmax, 4.5/math.Sqrt(fn))
			return fin()
		}
		if pl.unif && rep > 3 {
			out.Fail("repeated-values", "%s: %d repeated values in a pool of 53-bit uniform draws", desc, rep)
			return fin()
		}
		if !pl.unif && n <= 60000 && rep > 12 {
			// the ziggurat sampler has about 2^32 distinct outputs: ~n^2/8.6e9 chance repeats
			out.Fail("repeated-values", "%s: %d repeated values in a pool of normal draws (expected well below 1)", desc, rep)
			return fin()
		}
		if pl.r1n > 1000 {
			r1 := pl.r1 / float64(pl.r1n)
			if math.Abs(r1) > 7/math.Sqrt(float64(pl.r1n)) {
				out.Fail("position-dependence", "%s: lag-1 autocorrelation along row-major order is %v (7 standard errors = %v)", desc, r1, 7/math.Sqrt(float64(pl.r1n)))
				return fin()
			}
		}
		if pl.ccn > 1000 {
			cc := pl.cc / float64(pl.ccn)
			if math.Abs(cc) > 7/math.Sqrt(float64(pl.ccn)) {
				out.Fail("call-dependence", "%s: correlation between the same positions of consecutive calls is %v (7 standard errors = %v)", desc, cc, 7/math.Sqrt(float64(pl.ccn)))
				return fin()
			}
		}
		out.Probes["full-pools/"+pl.kind]++
	}
	out.Nontrivial = full > 0
	return fin()
}

func (c18) Shrinks(sc *sim.Scenario) []*sim.Scenario {
	var out []*sim.Scenario
	// statistical failures need the whole pool; deterministic ones shrink to one call
	for i := len(sc.Steps) - 1; i >= 0 && len(out) < 60; i-- {
		c := sc.Clone()
		c.Steps = c.Steps[i : i+1]
		out = append(out, c)
	}
	if n := len(sc.Steps); n > 2 {
		c := sc.Clone()
		c.Steps = c.Steps[:n/2]
		out = append(out, c)
		c2 := sc.Clone()
		c2.Steps = c2.Steps[n/2:]
		out = append(out, c2)
	}
	return out
}
