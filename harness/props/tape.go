package props

import "math"

// A tiny scalar reverse-mode tape: the executable reference model for the
// FC -> activation -> loss composition (C11, C16). It shares nothing with the
// library. Broadcast expansions are explicit (expand), with two reduction
// modes for their gradient: sum (what the properties demand) and mean (what
// the library's Broadcast rule does — the known finding).
type tape struct {
	v    []float64
	par  [][2]int     // up to two parents (-1: none)
	d    [][2]float64 // partial derivatives w.r.t. the parents
	mean bool
}

func newTape(mean bool) *tape { return &tape{mean: mean} }

func (t *tape) node(v float64, p0 int, d0 float64, p1 int, d1 float64) int {
	t.v = append(t.v, v)
	t.par = append(t.par, [2]int{p0, p1})
	t.d = append(t.d, [2]float64{d0, d1})
	return len(t.v) - 1
}

func (t *tape) leaf(v float64) int { return t.node(v, -1, 0, -1, 0) }
func (t *tape) add(a, b int) int   { return t.node(t.v[a]+t.v[b], a, 1, b, 1) }
func (t *tape) sub(a, b int) int   { return t.node(t.v[a]-t.v[b], a, 1, b, -1) }
func (t *tape) mul(a, b int) int   { return t.node(t.v[a]*t.v[b], a, t.v[b], b, t.v[a]) }
func (t *tape) div(a, b int) int {
	return t.node(t.v[a]/t.v[b], a, 1/t.v[b], b, -t.v[a]/(t.v[b]*t.v[b]))
}
func (t *tape) scale(a int, c float64) int { return t.node(c*t.v[a], a, c, -1, 0) }
func (t *tape) addc(a int, c float64) int  { return t.node(t.v[a]+c, a, 1, -1, 0) }
func (t *tape) exp(a int) int              { e := math.Exp(t.v[a]); return t.node(e, a, e, -1, 0) }
func (t *tape) log(a int) int              { return t.node(math.Log(t.v[a]), a, 1/t.v[a], -1, 0) }
func (t *tape) tanh(a int) int {
	y := math.Tanh(t.v[a])
	c := math.Cosh(t.v[a])
	return t.node(y, a, 1/(c*c), -1, 0) // 1-y*y cancels catastrophically for |x| > 8
}
func (t *tape) sq(a int) int { return t.node(t.v[a]*t.v[a], a, 2*t.v[a], -1, 0) }
func (t *tape) inv(a int) int {
	return t.node(1/t.v[a], a, -1/(t.v[a]*t.v[a]), -1, 0)
}

// clamp(x, lo, hi): derivative 1 strictly inside, 0 outside.
func (t *tape) clamp(a int, lo, hi float64) int {
	x := t.v[a]
	switch {
	case x < lo:
		return t.node(lo, a, 0, -1, 0)
	case x > hi:
		return t.node(hi, a, 0, -1, 0)
	}
	return t.node(x, a, 1, -1, 0)
}

// relu-like: max(0,x) + m*min(0,x)
func (t *tape) lrelu(a int, m float64) int {
	x := t.v[a]
	if x > 0 {
		return t.node(x, a, 1, -1, 0)
	}
	return t.node(m*x, a, m, -1, 0)
}

// expand is one copy of a broadcast operand that is repeated `factor` times.
func (t *tape) expand(a int, factor int) int {
	if t.mean && factor > 1 {
		return t.node(t.v[a], a, 1/float64(factor), -1, 0)
	}
	return t.node(t.v[a], a, 1, -1, 0)
}

// backward returns d root / d node for every node and the same with absolute
// values everywhere (the magnitude of the terms, used as comparison scale).
func (t *tape) backward(root int) (g, gabs []float64) {
	g = make([]float64, len(t.v))
	gabs = make([]float64, len(t.v))
	g[root], gabs[root] = 1, 1
	for i := root; i >= 0; i-- {
		if g[i] == 0 && gabs[i] == 0 {
			continue
		}
		for k := 0; k < 2; k++ {
			p := t.par[i][k]
			if p < 0 {
				continue
			}
			g[p] += g[i] * t.d[i][k]
			gabs[p] += gabs[i] * math.Abs(t.d[i][k])
		}
	}
	return
}
