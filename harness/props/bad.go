package props

import (
	"fmt"

	"github.com/sahandsafizadeh/qeep/component/optimizers"
	"github.com/sahandsafizadeh/qeep/tensor"

	"qverif/sim"
)

// Invalid calls ("failure paths") shared by the checks. A rejected call is the
// library analogue of a crashed request: it must return an error, return no
// result, leave no trace on any existing tensor or on process-wide state, and
// be rejected again with the same words when it is repeated.
//
// Every kind is a call that the library's own validators reject for every
// operand it is built around. A kind is built around the live tensor x when
// x's shape allows it (badFits) and around fresh tensors otherwise, so that
// the process-wide part of a failure path (caches, flags, internal goroutines)
// is reached either way.

var badKinds = []string{
	"backprop-nil",
	"nil-operand",         // n: operation
	"bcast-second-fails",  // x.op(y): x already has the common shape, y cannot be expanded
	"bcast-first-fails",   // x.op(y): x cannot be expanded, y has the common shape
	"bcast-both-fail",     // neither operand can be expanded to the common shape
	"same-shape-mismatch", // ElMax / ElMin / comparisons with another rank
	"dot-mismatch",
	"matmul-inner",
	"matmul-batch-first",  // inner dimensions fit, x's batch dimension cannot be expanded
	"matmul-batch-second", // inner dimensions fit, the other operand's batch dimension cannot be expanded
	"matmul-batch-both",
	"concat-two-dims-after",  // Concat([y, x]): x differs from y along the concat dimension and along another one
	"concat-two-dims-before", // Concat([x, y])
	"concat-dim-range",
	"patch-too-big",
	"patch-index",
	"reshape-count",
	"squeeze-dim",
	"unsqueeze-dim",
	"flatten-dim",
	"along-dim", // n: reducer
	"slice-range",
	"broadcast-shape",
	"transpose-rank",
	"at-index",
	"update-nil-pointer",
	"update-nil-tensor",
	"update-no-gradient", // x (or a fresh tracked tensor) has no gradient yet
	"creator-shape",      // n: constructor; dims contain 0 or a negative size
	"creator-params",     // RandU lower >= upper, RandN sigma <= 0
}

var badNilOps = []string{"add", "sub", "mul", "div", "elmax", "elmin", "dot", "matmul", "eq", "lt", "patch", "concat"}
var badArith = []string{"add", "sub", "mul", "div"}
var badSame = []string{"elmax", "elmin", "eq", "ne", "gt", "ge", "lt", "le"}
var badAlong = []string{"sumalong", "maxalong", "minalong", "avgalong", "varalong", "stdalong", "meanalong"}

func badIndexOf(tag string) int {
	for i, k := range badKinds {
		if k == tag {
			return i
		}
	}
	return -1
}

// badFits reports whether the kind can be built around a tensor of this shape
// (so that the live tensor itself is an operand of the rejected call).
func badFits(tag string, shp []int) bool {
	rank := len(shp)
	last := 0
	if rank > 0 {
		last = shp[rank-1]
	}
	switch tag {
	case "backprop-nil", "update-nil-pointer", "update-nil-tensor", "creator-shape", "creator-params":
		return true
	case "bcast-second-fails":
		for _, d := range shp {
			if d >= 3 {
				return true
			}
		}
		return false
	case "bcast-first-fails":
		return rank >= 1 && last >= 2
	case "bcast-both-fail":
		return rank >= 2 && shp[0] >= 3 && last >= 2
	case "dot-mismatch":
		return rank >= 1
	case "matmul-inner":
		return rank >= 2
	case "matmul-batch-first":
		return rank >= 3 && shp[rank-3] >= 2
	case "matmul-batch-second":
		return rank >= 3 && shp[rank-3] >= 3
	case "matmul-batch-both":
		return rank >= 4 && shp[rank-3] >= 2 && shp[rank-4] >= 2 && shp[rank-3] != shp[rank-4]
	case "concat-two-dims-after", "concat-two-dims-before":
		return rank >= 2
	case "concat-dim-range", "patch-too-big", "patch-index", "slice-range", "at-index":
		return rank >= 1
	case "transpose-rank":
		return rank < 2
	}
	return true
}

func onesOf(shape []int, tracked bool) tensor.Tensor {
	t, err := tensor.Ones(shape, &tensor.Config{Device: tensor.CPU, GradTrack: tracked})
	if err != nil {
		panic(fmt.Sprintf("harness: Ones%v: %v", shape, err))
	}
	return t
}

// doBad performs the invalid call once. x may be nil (fresh operands only).
// what describes the call for messages; trace is non-empty when the rejected
// call visibly changed something of the caller's. What a rejected call returns
// besides its error is not judged (no property says anything about it).
func doBad(tag string, n int, x tensor.Tensor) (got tensor.Tensor, err error, what string, trace string) {
	if n < 0 {
		n = -n
	}
	var shp []int
	if x != nil {
		shp = x.Shape()
	}
	fits := x != nil && badFits(tag, shp)
	// a fresh stand-in of a shape every kind fits
	stand := func(shape ...int) tensor.Tensor {
		x = onesOf(shape, true)
		shp = shape
		return x
	}
	bin := func(op string, a, b tensor.Tensor) {
		r := sim.ApplyOn(sim.Step{Op: op, Out: -1}, []tensor.Tensor{a, b})
		got, err = r.T, r.Err
	}
	rank := func() int { return len(shp) }
	switch tag {
	case "backprop-nil":
		what = "BackPropagate(nil)"
		err = sim.BackPropNil()
	case "nil-operand":
		if x == nil {
			stand(2, 3)
		}
		op := badNilOps[n%len(badNilOps)]
		what = op + " with a nil operand"
		switch op {
		case "concat":
			got, err = tensor.Concat([]tensor.Tensor{x, nil}, 0)
		case "patch":
			got, err = x.Patch(nil, nil)
		default:
			bin(op, x, nil)
		}
	case "bcast-second-fails":
		if !fits {
			stand(2, 3)
		}
		// y: x's shape with one size >= 3 lowered by one (neither equal nor 1)
		y := cpI(shp)
		ax := -1
		for i := range y {
			j := (i + n) % len(y)
			if y[j] >= 3 {
				ax = j
				break
			}
		}
		y[ax]--
		if (n/7)%2 == 1 {
			y = y[ax:] // a lower rank that still clashes on its first dimension
		}
		op := badArith[n%len(badArith)]
		what = fmt.Sprintf("%s of shapes %v and %v (the second cannot be expanded)", op, shp, y)
		bin(op, x, onesOf(y, (n/3)%2 == 0))
	case "bcast-first-fails":
		if !fits {
			stand(2, 3)
		}
		y := cpI(shp)
		y[len(y)-1]++
		op := badArith[n%len(badArith)]
		what = fmt.Sprintf("%s of shapes %v and %v (the first cannot be expanded)", op, shp, y)
		bin(op, x, onesOf(y, (n/3)%2 == 0))
	case "bcast-both-fail":
		if !fits {
			stand(3, 2)
		}
		// [a, .., L] against [a-1, .., L+1]: the common shape is [a, .., L+1], which
		// neither operand can be expanded to
		y := cpI(shp)
		y[0]--
		y[len(y)-1]++
		op := badArith[n%len(badArith)]
		what = fmt.Sprintf("%s of shapes %v and %v (neither can be expanded)", op, shp, y)
		bin(op, x, onesOf(y, (n/3)%2 == 0))
	case "same-shape-mismatch":
		if x == nil {
			stand(2, 3)
		}
		op := badSame[n%len(badSame)]
		y := append(cpI(shp), 2)
		what = fmt.Sprintf("%s of shapes %v and %v", op, shp, y)
		bin(op, x, onesOf(y, false))
	case "dot-mismatch":
		if !fits {
			stand(2, 3)
		}
		y := []int{shp[len(shp)-1] + 1}
		what = fmt.Sprintf("dot of shapes %v and %v", shp, y)
		bin("dot", x, onesOf(y, (n%2) == 0))
	case "matmul-inner":
		if !fits {
			stand(2, 3)
		}
		y := []int{shp[len(shp)-1] + 1, 2}
		what = fmt.Sprintf("matmul of shapes %v and %v", shp, y)
		bin("matmul", x, onesOf(y, (n%2) == 0))
	case "matmul-batch-first":
		if !fits {
			stand(2, 2, 3)
		}
		r := rank()
		y := []int{shp[r-3] + 1, shp[r-1], 2}
		what = fmt.Sprintf("matmul of shapes %v and %v (inner sizes fit, the first operand's batch size cannot be expanded)", shp, y)
		bin("matmul", x, onesOf(y, (n%2) == 0))
	case "matmul-batch-second":
		if !fits {
			stand(3, 2, 3)
		}
		r := rank()
		y := []int{shp[r-3] - 1, shp[r-1], 2}
		what = fmt.Sprintf("matmul of shapes %v and %v (inner sizes fit, the second operand's batch size cannot be expanded)", shp, y)
		bin("matmul", x, onesOf(y, (n%2) == 0))
	case "matmul-batch-both":
		if !fits {
			stand(2, 3, 2, 2)
		}
		r := rank()
		y := []int{shp[r-3], shp[r-4], shp[r-1], 2}
		what = fmt.Sprintf("matmul of shapes %v and %v (inner sizes fit, neither batch shape can be expanded)", shp, y)
		bin("matmul", x, onesOf(y, (n%2) == 0))
	case "concat-two-dims-after", "concat-two-dims-before":
		if !fits {
			stand(2, 3)
		}
		y := cpI(shp)
		dim := n % len(y)
		other := (dim + 1 + (n/5)%(len(y)-1)) % len(y)
		y[dim] += 2
		y[other]++
		f := onesOf(y, (n/3)%2 == 0)
		if tag == "concat-two-dims-after" {
			what = fmt.Sprintf("Concat of shapes %v and %v along %d", y, shp, dim)
			got, err = tensor.Concat([]tensor.Tensor{f, x}, dim)
		} else {
			what = fmt.Sprintf("Concat of shapes %v and %v along %d", shp, y, dim)
			got, err = tensor.Concat([]tensor.Tensor{x, f}, dim)
		}
	case "concat-dim-range":
		if !fits {
			stand(2, 3)
		}
		what = fmt.Sprintf("Concat of two %v tensors along dimension %d", shp, len(shp))
		got, err = tensor.Concat([]tensor.Tensor{x, x}, len(shp))
	case "patch-too-big":
		if !fits {
			stand(2, 3)
		}
		y := cpI(shp)
		y[n%len(y)]++
		what = fmt.Sprintf("Patch of a %v tensor with a %v source", shp, y)
		got, err = x.Patch(nil, onesOf(y, false))
	case "patch-index":
		if !fits {
			stand(2, 3)
		}
		idx := make([]tensor.Range, len(shp))
		for i := range idx {
			idx[i] = tensor.Range{From: 0, To: shp[i]}
		}
		idx[n%len(idx)].To = shp[n%len(idx)] + 1
		what = fmt.Sprintf("Patch of a %v tensor at an index beyond its size", shp)
		got, err = x.Patch(idx, onesOf(shp, false))
	case "reshape-count":
		if x == nil {
			stand(2, 3)
		}
		what = fmt.Sprintf("Reshape of %v to [%d]", shp, sim.NElems(shp)+1)
		got, err = x.Reshape([]int{sim.NElems(shp) + 1})
	case "squeeze-dim":
		if x == nil {
			stand(2, 3)
		}
		what = fmt.Sprintf("Squeeze(%d) of %v", len(shp), shp)
		got, err = x.Squeeze(len(shp))
	case "unsqueeze-dim":
		if x == nil {
			stand(2, 3)
		}
		what = fmt.Sprintf("UnSqueeze(%d) of %v", len(shp)+1, shp)
		got, err = x.UnSqueeze(len(shp) + 1)
	case "flatten-dim":
		if x == nil {
			stand(2, 3)
		}
		what = fmt.Sprintf("Flatten(%d) of %v", len(shp)+1, shp)
		got, err = x.Flatten(len(shp) + 1)
	case "along-dim":
		if x == nil {
			stand(2, 3)
		}
		op := badAlong[n%len(badAlong)]
		what = fmt.Sprintf("%s(%d) of %v", op, len(shp), shp)
		r := sim.ApplyOn(sim.Step{Op: op, I: []int{len(shp)}, Out: -1}, []tensor.Tensor{x})
		got, err = r.T, r.Err
	case "slice-range":
		if !fits {
			stand(2, 3)
		}
		what = fmt.Sprintf("Slice of %v beyond its size", shp)
		got, err = x.Slice([]tensor.Range{{From: 0, To: shp[0] + 1}})
	case "broadcast-shape":
		if x == nil {
			stand(2, 3)
		}
		y := append(cpI(shp), 0)
		what = fmt.Sprintf("Broadcast of %v to %v", shp, y)
		got, err = x.Broadcast(y)
	case "transpose-rank":
		if !fits {
			stand(3)
		}
		what = fmt.Sprintf("Transpose of %v", shp)
		got, err = x.Transpose()
	case "at-index":
		if !fits {
			stand(2, 3)
		}
		idx := make([]int, len(shp))
		idx[n%len(idx)] = shp[n%len(idx)]
		what = fmt.Sprintf("At%v of %v", idx, shp)
		_, err = x.At(idx...)
	case "update-nil-pointer":
		what = "SGD.Update(nil)"
		err = optimizers.NewSGD(nil).Update(nil)
	case "update-nil-tensor":
		what = "SGD.Update(pointer to a nil tensor)"
		var t tensor.Tensor
		err = optimizers.NewSGD(nil).Update(&t)
	case "update-no-gradient":
		if x == nil || x.Gradient() != nil {
			stand(3)
		}
		what = fmt.Sprintf("SGD.Update of a %v tensor without gradient", shp)
		t := x
		err = optimizers.NewSGD(nil).Update(&t)
		if err != nil && t != x {
			trace = "the rejected Update replaced the tensor behind the caller's pointer"
		}
	case "creator-shape":
		d := [][]int{{0}, {2, 0}, {-1, 2}, {3, -2}}[n%4]
		conf := &tensor.Config{Device: tensor.CPU, GradTrack: (n/4)%2 == 0}
		switch (n / 8) % 6 {
		case 0:
			what = fmt.Sprintf("Full(%v)", d)
			got, err = tensor.Full(d, 1.5, conf)
		case 1:
			what = fmt.Sprintf("Zeros(%v)", d)
			got, err = tensor.Zeros(d, conf)
		case 2:
			what = fmt.Sprintf("Ones(%v)", d)
			got, err = tensor.Ones(d, conf)
		case 3:
			what = fmt.Sprintf("RandU(%v, -1, 1)", d)
			got, err = tensor.RandU(d, -1, 1, conf)
		case 4:
			what = fmt.Sprintf("RandN(%v, 0, 1)", d)
			got, err = tensor.RandN(d, 0, 1, conf)
		default:
			what = "Eye(0)"
			got, err = tensor.Eye(0, conf)
		}
	case "creator-params":
		conf := &tensor.Config{Device: tensor.CPU, GradTrack: (n/4)%2 == 0}
		switch n % 4 {
		case 0:
			what = "RandU([2 3], 1, 1)"
			got, err = tensor.RandU([]int{2, 3}, 1, 1, conf)
		case 1:
			what = "RandU([2 3], 2, -2)"
			got, err = tensor.RandU([]int{2, 3}, 2, -2, conf)
		case 2:
			what = "RandN([2 3], 0, 0)"
			got, err = tensor.RandN([]int{2, 3}, 0, 0, conf)
		default:
			what = "RandN([2 3], 1, -1)"
			got, err = tensor.RandN([]int{2, 3}, 1, -1, conf)
		}
	default:
		return nil, fmt.Errorf("harness: unknown invalid-call kind %q", tag), "unknown", ""
	}
	return got, err, what, trace
}

// badVerdict runs the invalid call twice and judges what a rejected call may
// be judged on without knowing the caller's state: an error both times, with
// the same words. It returns the oracle name and message of a
// failure, or "", the words of the error, and the error value itself (which
// must keep reading the same for as long as the caller holds it).
func badVerdict(tag string, n int, x tensor.Tensor) (oracle, msg, errText string, held error) {
	_, err, what, trace := doBad(tag, n, x)
	if what == "unknown" {
		return "harness", err.Error(), "", nil
	}
	if err == nil {
		return "invalid-call-accepted", fmt.Sprintf("%s returned no error", what), "", nil
	}
	if trace != "" {
		return "rejected-call-changed-state", fmt.Sprintf("%s was rejected (%v): %s", what, err, trace), err.Error(), err
	}
	first := err.Error()
	_, err2, _, _ := doBad(tag, n, x)
	if err2 == nil {
		return "rejected-call-accepted-when-repeated", fmt.Sprintf("%s was rejected the first time (%s) and accepted when repeated at once", what, first), first, err
	}
	if err2.Error() != first {
		return "rejected-call-error-changed", fmt.Sprintf("%s: repeated at once, the error reads %q instead of %q", what, err2.Error(), first), first, err
	}
	if err.Error() != first {
		return "rejected-call-error-changed", fmt.Sprintf("%s: the error value returned first read %q and reads %q after the call was repeated", what, first, err.Error()), first, err
	}
	return "", "", first, err
}

// pickBad chooses a kind (and its variant n) for a tensor of the given shape,
// preferring kinds that can be built around that very tensor.
func pickBad(r *sim.Rand, shp []int) (string, int) {
	for try := 0; try < 6; try++ {
		tag := badKinds[r.Intn(len(badKinds))]
		if badFits(tag, shp) || try == 5 {
			return tag, r.Intn(1 << 16)
		}
	}
	return "backprop-nil", 0
}
