package props

import (
	"fmt"
	"math"

	"github.com/sahandsafizadeh/qeep/component/metrics"
	"github.com/sahandsafizadeh/qeep/tensor"

	"qverif/sim"
)

// C19 — accuracy equals matched over total across everything accumulated.
//
// Steps: op "acc" (F = predictions followed by targets, N = batch size,
// B = tracked inputs), op "result", and invalid-call faults op "bad" with
// Tag in {nil-yp, nil-yt, rank0, rank2, len-mismatch}. Client = instance.
// Data["part<c>"] / Data["perm<c>"]: the re-partition twin for instance c.
type c19 struct{}

func init() { sim.Register(c19{}) }

func (c19) ID() string    { return "C19" }
func (c19) Level() string { return "fault_enumeration" }
func (c19) Rule() string {
	return "histories of Accumulate / Result calls on 1-3 Accuracy instances interleaved by the call-granularity scheduler, with invalid-call faults (nil, rank 0/2, unequal lengths) inserted (thorough: every fault kind at every position of every history); model = two integers; twin = same data re-delivered under another partition and order. Non-trivial: >=2 accepted batches with >=1 rejected call between accepted ones. Distinct: hash of the (instance, op, batch size, fault kind) sequence. Also: one tensor object as prediction and target, delivery through Patch into used tensors, rare long-lived metrics (250-1100 calls) with Result read only at and around powers of two."
}
func (c19) Assumptions() []string {
	return []string{
		"label values are small integers, floats that are either identical or far apart (the library's absolute equality tolerance is 1e-240), -0, huge values, NaN (never equal to anything) and +-Inf (equal to itself)",
		"besides the seeded re-partition, the same data are re-delivered through the library's own operations: predictions stacked with Concat, batches cut from one tensor with Slice, small integer predictions decoded from one-hot rows with Dot + Flatten",
		"the reference model is two integers per instance; float64(correct)/float64(total) is the defined result",
	}
}
func (c19) Extra() map[string]any {
	e := baseExtra()
	e["fault_kinds"] = []string{"invalid-call", "reorder (re-partition twin; delivery through Concat / Slice / Patch / Dot)", "re-submission of the same tensor objects; one object as prediction and target"}
	return e
}

var c19Labels = []float64{0, 1, 2, 3, 0.5, 1.5, -1, 7, 1e6, -0.25, -100, 255, math.Copysign(0, -1), 1e300, -1e300, 1e-200, math.NaN(), math.Inf(1), math.Inf(-1)}

var c19Bad = []string{"nil-yp", "nil-yt", "nil-both", "rank0", "rank2", "len-mismatch", "rank-mixed", "same-rank2", "same-rank0"}

// c19Batch draws a batch size: mostly small, sometimes large (any size is in
// the quantifier; float round-trips only go wrong for particular sizes).
func c19Batch(r *sim.Rand) int {
	switch x := r.Intn(100); {
	case x < 60:
		return r.Range(1, 16)
	case x < 90:
		return r.Range(17, 64)
	default:
		return r.Range(65, 300)
	}
}

type model struct{ total, correct int }

type fork19 struct {
	m   *metrics.Accuracy
	mod model
	c   int
	at  int
}

func (c19) Generate(r *sim.Rand, tier string) *sim.Scenario {
	sc := &sim.Scenario{Cfg: map[string]float64{}, Data: map[string][]float64{}}
	ninst := r.Range(1, 3)
	sc.Cfg["instances"] = float64(ninst)
	nlabels := r.Range(2, len(c19Labels))
	maxCalls := 24
	if tier == "thorough" {
		maxCalls = 40
	}
	if r.Bool(0.1) {
		maxCalls *= 3 // long histories
	}
	ncalls := r.Range(1, maxCalls)
	long := r.Bool(0.006)
	if long {
		// a long-lived metric: hundreds of calls, tens of thousands of positions
		// (running counts kept in a narrow type, periodic re-basing, ...)
		ncalls = r.Range(250, 600)
		ninst = 1
		sc.Cfg["instances"] = 1
	}
	pFault := []float64{0, 0.1, 0.25}[r.Intn(3)]
	if tier == "thorough" && r.Bool(0.5) && !long {
		// (never on the long flavour: every fault position re-executes the history)
		sc.Cfg["enum"] = 1
		ncalls = r.Range(1, 16)
	}
	pMatch := []float64{0.1, 0.5, 0.9}[r.Intn(3)]
	// sparse reads (long histories): Result is read only after a chosen number
	// of accepted calls since the last read, at and around powers of two
	sparse := long && r.Bool(0.7)
	if sparse {
		sc.Cfg["sparse"] = 1
		ncalls = r.Range(400, 1100)
	}
	gaps := []int{128, 255, 256, 257, 512, 513, 64, 100}
	sinceRead, nextRead := 0, gaps[r.Intn(len(gaps))]
	for k := 0; k < ncalls; k++ {
		c := r.Intn(ninst)
		if sparse && sinceRead >= nextRead {
			sc.Steps = append(sc.Steps, sim.Step{C: c, Op: "result", Out: -1})
			sinceRead, nextRead = 0, gaps[r.Intn(len(gaps))]
		}
		switch {
		case sparse && r.Bool(0.97):
			// accepted calls only (below), small batches so that a thousand calls stay cheap
			sinceRead++
			n := r.Range(1, 12)
			st := sim.Step{C: c, Op: "acc", N: n, B: r.Bool(0.3), Out: -1}
			yp := make([]float64, n)
			yt := make([]float64, n)
			for i := range yp {
				yp[i] = c19enc(c19Labels[r.Intn(nlabels)])
				yt[i] = yp[i]
				if !r.Bool(pMatch) {
					yt[i] = c19enc(c19Labels[r.Intn(nlabels)])
				}
			}
			st.F = append(append(st.F, yp...), yt...)
			sc.Steps = append(sc.Steps, st)
		case sparse || r.Bool(pFault):
			// (in sparse mode everything that is not an accepted call is a rejected
			// one: the number of accepted calls between two reads stays exact)
			n := r.Range(1, 6)
			st := sim.Step{C: c, Op: "bad", Tag: c19Bad[r.Intn(len(c19Bad))], N: n, Out: -1}
			for i := 0; i < 2*n+1; i++ {
				st.F = append(st.F, c19enc(c19Labels[r.Intn(nlabels)]))
			}
			sc.Steps = append(sc.Steps, st)
		case r.Bool(0.03):
			// the metric value is copied (plain Go): the copy is a snapshot that later
			// calls on the original must not reach
			sc.Steps = append(sc.Steps, sim.Step{C: c, Op: "fork", Out: -1})
		case r.Bool(0.12):
			sc.Steps = append(sc.Steps, sim.Step{C: c, Op: "again", Out: -1})
		case r.Bool(0.25):
			sc.Steps = append(sc.Steps, sim.Step{C: c, Op: "result", Out: -1})
		default:
			n := c19Batch(r)
			if long && r.Bool(0.8) {
				n = r.Range(120, 300)
			}
			if sc.Cfg["enum"] != 1 && r.Bool(0.0006) {
				n = r.Range(33000, 70000) // one very long batch (never in enumerating runs: every fault position re-executes the history)
			}
			st := sim.Step{C: c, Op: "acc", N: n, B: r.Bool(0.3), Out: -1}
			yp := make([]float64, n)
			yt := make([]float64, n)
			for i := range yp {
				yp[i] = c19enc(c19Labels[r.Intn(nlabels)])
				if r.Bool(pMatch) {
					yt[i] = yp[i]
				} else {
					yt[i] = c19enc(c19Labels[r.Intn(nlabels)])
				}
			}
			if r.Bool(0.08) {
				// one tensor object as prediction and as target
				st.Tag = "self"
				copy(yt, yp)
			}
			st.F = append(append(st.F, yp...), yt...)
			sc.Steps = append(sc.Steps, st)
		}
	}
	// re-partition twin per instance
	for c := 0; c < ninst; c++ {
		tot := 0
		for _, s := range sc.Steps {
			if s.C == c && s.Op == "acc" {
				tot += s.N
			}
		}
		perm := r.Perm(tot)
		var pf []float64
		for _, x := range perm {
			pf = append(pf, float64(x))
		}
		var part []float64
		for rem := tot; rem > 0; {
			n := c19Batch(r)
			if n > rem {
				n = rem
			}
			part = append(part, float64(n))
			rem -= n
		}
		sc.Data[fmt.Sprintf("perm%d", c)] = pf
		sc.Data[fmt.Sprintf("part%d", c)] = part
	}
	return sc
}

// Execute runs the history; with Cfg["enum"]=1 it additionally enumerates
// every fault kind at every position of the (fault-free part of the) history.
func (p c19) Execute(sc *sim.Scenario) *sim.Outcome {
	out := p.execOne(sc)
	if sc.Cfg["enum"] != 1 || out.Violation != nil || out.Discard != "" {
		return out
	}
	for pos := 0; pos <= len(sc.Steps); pos++ {
		for ki, kind := range c19Bad {
			v := sc.Clone()
			v.Cfg["enum"] = 0
			c := 0
			if pos < len(sc.Steps) {
				c = sc.Steps[pos].C
			} else if pos > 0 {
				c = sc.Steps[pos-1].C
			}
			n := 1 + (pos+ki)%4
			st := sim.Step{C: c, Op: "bad", Tag: kind, N: n, Out: -1}
			for i := 0; i < 2*n+1; i++ {
				st.F = append(st.F, c19Labels[(pos+i)%4])
			}
			v.Steps = append(v.Steps[:pos:pos], append([]sim.Step{st}, v.Steps[pos:]...)...)
			o := p.execOne(v)
			out.Probes["enumerated-fault-placements"]++
			out.SimSteps += o.SimSteps
			for k, n := range o.Faults {
				out.Faults[k] += n
			}
			if o.Violation != nil {
				out.Violation = o.Violation
				out.Concrete = v
				return out
			}
		}
	}
	return out
}

// Scenario files are JSON, which cannot carry NaN / Inf: those labels travel
// as sentinels and are decoded here.
const (
	c19NaN    = 9.87654321e200
	c19PosInf = 9.87654322e200
	c19NegInf = 9.87654323e200
)

func c19enc(v float64) float64 {
	switch {
	case math.IsNaN(v):
		return c19NaN
	case math.IsInf(v, 1):
		return c19PosInf
	case math.IsInf(v, -1):
		return c19NegInf
	}
	return v
}

func c19dec(vs []float64) []float64 {
	o := make([]float64, len(vs))
	for i, v := range vs {
		switch v {
		case c19NaN:
			o[i] = math.NaN()
		case c19PosInf:
			o[i] = math.Inf(1)
		case c19NegInf:
			o[i] = math.Inf(-1)
		default:
			o[i] = v
		}
	}
	return o
}

func (c19) execOne(sc *sim.Scenario) *sim.Outcome {
	out := sim.NewOutcome()
	start := sim.Now()
	ninst := sc.CfgInt("instances")
	if ninst < 1 {
		ninst = 1
	}
	inst := make([]*metrics.Accuracy, ninst)
	mod := make([]model, ninst)
	var forks []fork19
	allP := make([][]float64, ninst)
	allT := make([][]float64, ninst)
	batches := make([][]int, ninst)
	type lastCall struct {
		yp, yt tensor.Tensor
		p, t   []float64 // data when the pair was valid, nil otherwise
	}
	last := make([]*lastCall, ninst)
	for i := range inst {
		inst[i] = metrics.NewAccuracy()
	}
	lh := sim.NewHash()
	sig := sim.NewHash()
	accepted := make([]int, ninst)
	rejectedBetween := false
	pendingReject := make([]bool, ninst)
	checkResult := func(c int, where string) bool {
		got, err := inst[c].Result()
		if err != nil {
			out.Fail("result-error", "%s: Result() returned error %v", where, err)
			return false
		}
		want := 0.0
		if mod[c].total > 0 {
			want = float64(mod[c].correct) / float64(mod[c].total)
		}
		lh = lh.F64(got)
		if got != want {
			out.Fail("result-mismatch", "%s: instance %d Result()=%v, model %d/%d=%v", where, c, got, mod[c].correct, mod[c].total, want)
			return false
		}
		if !(got >= 0 && got <= 1) {
			out.Fail("result-range", "%s: Result()=%v outside [0,1]", where, got)
			return false
		}
		return true
	}
	for si, s := range sc.Steps {
		c := s.C
		if c < 0 || c >= ninst {
			continue
		}
		where := fmt.Sprintf("step %d (%s %s)", si, s.Op, s.Tag)
		lh = lh.Int(c).Str(s.Op).Str(s.Tag).Int(s.N)
		sig = sig.Int(c).Str(s.Op).Str(s.Tag).Int(s.N)
		switch s.Op {
		case "result":
			if !checkResult(c, where) {
				return finish(out, lh, sig, start)
			}
		case "acc":
			n := s.N
			if len(s.F) < 2*n || n < 1 {
				out.Discard = "malformed"
				return out
			}
			yp, yt := c19dec(s.F[:n]), c19dec(s.F[n:2*n])
			tp, tt := vec(yp, s.B), vec(yt, false)
			if s.Tag == "self" {
				tt, yt = tp, yp
				out.Faults["same-object-as-prediction-and-target"]++
			}
			last[c] = &lastCall{tp, tt, yp, yt}
			err := inst[c].Accumulate(tp, tt)
			if err != nil {
				out.Fail("valid-call-rejected", "%s: Accumulate of two [%d] tensors returned error: %v", where, n, err)
				return finish(out, lh, sig, start)
			}
			mod[c].total += n
			for i := range yp {
				if yp[i] == yt[i] {
					mod[c].correct++
				}
			}
			allP[c] = append(allP[c], yp...)
			allT[c] = append(allT[c], yt...)
			batches[c] = append(batches[c], n)
			if accepted[c] > 0 && pendingReject[c] {
				rejectedBetween = true
			}
			accepted[c]++
			if sc.Cfg["sparse"] != 1 && !checkResult(c, where) {
				return finish(out, lh, sig, start)
			}
		case "fork":
			cp := *inst[c]
			forks = append(forks, fork19{&cp, mod[c], c, si})
			out.Faults["metric-copied-by-value"]++
		case "again":
			// the very same tensor objects of this instance's previous call are submitted once more
			lc := last[c]
			if lc == nil {
				break
			}
			out.Faults["resubmit-same-objects"]++
			before := sim.DeepFPAny(inst[c])
			err := inst[c].Accumulate(lc.yp, lc.yt)
			if lc.p == nil {
				if err == nil {
					out.Fail("invalid-call-accepted", "%s: the same invalid pair of tensor objects, submitted a second time, returned no error", where)
					return finish(out, lh, sig, start)
				}
				if sim.DeepFPAny(inst[c]) != before {
					out.Fail("rejected-call-changed-state", "%s: rejected re-submission changed the metric's state", where)
					return finish(out, lh, sig, start)
				}
			} else {
				if err != nil {
					out.Fail("valid-call-rejected", "%s: the same valid pair of tensor objects, submitted a second time, returned error: %v", where, err)
					return finish(out, lh, sig, start)
				}
				mod[c].total += len(lc.p)
				for i := range lc.p {
					if lc.p[i] == lc.t[i] {
						mod[c].correct++
					}
				}
				allP[c] = append(allP[c], lc.p...)
				allT[c] = append(allT[c], lc.t...)
				batches[c] = append(batches[c], len(lc.p))
				accepted[c]++
			}
			if !checkResult(c, where) {
				return finish(out, lh, sig, start)
			}
		case "bad":
			n := s.N
			if len(s.F) < 2*n+1 || n < 1 {
				out.Discard = "malformed"
				return out
			}
			s.F = c19dec(s.F)
			var yp, yt tensor.Tensor
			switch s.Tag {
			case "nil-yp":
				yp, yt = nil, vec(s.F[:n], false)
			case "nil-yt":
				yp, yt = vec(s.F[:n], false), nil
			case "nil-both":
			case "rank0":
				yp, yt = sim.Leaf([]int{}, s.F[:1], false), sim.Leaf([]int{}, s.F[1:2], false)
			case "rank2":
				yp, yt = sim.Leaf([]int{n, 1}, s.F[:n], false), sim.Leaf([]int{n, 1}, s.F[n:2*n], false)
			case "rank-mixed":
				yp, yt = sim.Leaf([]int{n}, s.F[:n], false), sim.Leaf([]int{n, 1}, s.F[n:2*n], false)
			case "len-mismatch":
				yp, yt = vec(s.F[:n], false), vec(s.F[n:2*n+1], false)
			case "same-rank2":
				yp = sim.Leaf([]int{n, 1}, s.F[:n], false)
				yt = yp
			case "same-rank0":
				yp = sim.Leaf([]int{}, s.F[:1], false)
				yt = yp
			default:
				out.Discard = "malformed"
				return out
			}
			before := sim.DeepFPAny(inst[c])
			last[c] = &lastCall{yp: yp, yt: yt}
			err := inst[c].Accumulate(yp, yt)
			out.Faults["invalid-call/"+s.Tag]++
			if err == nil {
				out.Fail("invalid-call-accepted", "%s: invalid Accumulate returned no error", where)
				return finish(out, lh, sig, start)
			}
			if sim.DeepFPAny(inst[c]) != before {
				out.Fail("rejected-call-changed-state", "%s: rejected Accumulate (%v) changed the metric's state", where, err)
				return finish(out, lh, sig, start)
			}
			if sc.Cfg["sparse"] != 1 && !checkResult(c, where+" after rejection") {
				out.Violation.Oracle = "rejected-call-changed-result"
				return finish(out, lh, sig, start)
			}
			if accepted[c] > 0 {
				pendingReject[c] = true
			}
		}
	}
	for _, f := range forks {
		got, err := f.m.Result()
		want := 0.0
		if f.mod.total > 0 {
			want = float64(f.mod.correct) / float64(f.mod.total)
		}
		if err != nil || got != want {
			out.Fail("copy-follows-original", "the by-value copy of instance %d taken at step %d reports Result()=%v (%v) at the end of the history; it held %d/%d=%v when it was taken and nothing was accumulated on it since", f.c, f.at, got, err, f.mod.correct, f.mod.total, want)
			return finish(out, lh, sig, start)
		}
	}
	for c := 0; c < ninst; c++ {
		if !checkResult(c, "end of history") {
			return finish(out, lh, sig, start)
		}
	}
	// twin: same data, other partition and order
	for c := 0; c < ninst; c++ {
		perm := sc.Data[fmt.Sprintf("perm%d", c)]
		part := sc.Data[fmt.Sprintf("part%d", c)]
		tot := len(allP[c])
		if tot == 0 || len(perm) != tot {
			continue
		}
		tw := metrics.NewAccuracy()
		pos := 0
		ok := true
		for _, pn := range part {
			n := int(pn)
			if n < 1 || pos+n > tot {
				ok = false
				break
			}
			yp := make([]float64, n)
			yt := make([]float64, n)
			for i := 0; i < n; i++ {
				j := int(perm[pos+i])
				if j < 0 || j >= tot {
					ok = false
					break
				}
				yp[i], yt[i] = allP[c][j], allT[c][j]
			}
			if !ok {
				break
			}
			if err := tw.Accumulate(vec(yp, false), vec(yt, false)); err != nil {
				out.Fail("valid-call-rejected", "twin: Accumulate returned error: %v", err)
				return finish(out, lh, sig, start)
			}
			pos += n
		}
		if !ok || pos != tot {
			continue // shrunk scenario whose twin spec no longer fits: twin skipped
		}
		out.Faults["reorder/re-partition"]++
		a, _ := inst[c].Result()
		b, _ := tw.Result()
		if a != b {
			out.Fail("partition-dependent", "instance %d: Result()=%v but the same %d positions re-delivered in %d batches give %v", c, a, tot, len(part), b)
			return finish(out, lh, sig, start)
		}
	}
	/* the same data delivered through the library's own tensor operations */
	for c := 0; c < ninst; c++ {
		tot := len(allP[c])
		if tot == 0 {
			continue
		}
		want, _ := inst[c].Result()
		same := func(tw *metrics.Accuracy, how string) bool {
			got, _ := tw.Result()
			if got != want {
				out.Fail("partition-dependent", "instance %d: Result()=%v for %d positions in %d batches, but %v when the same data are delivered as %s", c, want, tot, len(batches[c]), got, how)
				return false
			}
			return true
		}
		// (a) predictions of all batches stacked with Concat, targets as one tensor
		if len(batches[c]) >= 2 {
			var parts []tensor.Tensor
			pos := 0
			for _, n := range batches[c] {
				parts = append(parts, vec(allP[c][pos:pos+n], false))
				pos += n
			}
			cat, err := tensor.Concat(parts, 0)
			if err != nil {
				out.Fail("valid-call-rejected", "twin: Concat of %d rank-1 batches failed: %v", len(parts), err)
				return finish(out, lh, sig, start)
			}
			tw := metrics.NewAccuracy()
			if err := tw.Accumulate(cat, vec(allT[c], false)); err != nil {
				out.Fail("valid-call-rejected", "twin: Accumulate of the concatenated predictions failed: %v", err)
				return finish(out, lh, sig, start)
			}
			out.Faults["reorder/delivered-via-concat"]++
			if !same(tw, "one batch whose predictions are the Concat of the original batches") {
				return finish(out, lh, sig, start)
			}
		}
		// (b) one big tensor split back into the original batches with Slice
		{
			wp, wt := vec(allP[c], false), vec(allT[c], false)
			tw := metrics.NewAccuracy()
			pos := 0
			for _, n := range batches[c] {
				idx := []tensor.Range{{From: pos, To: pos + n}}
				p, err1 := wp.Slice(idx)
				t, err2 := wt.Slice(idx)
				if err1 != nil || err2 != nil {
					out.Fail("valid-call-rejected", "twin: Slice [%d,%d) of a [%d] tensor failed: %v %v", pos, pos+n, tot, err1, err2)
					return finish(out, lh, sig, start)
				}
				if err := tw.Accumulate(p, t); err != nil {
					out.Fail("valid-call-rejected", "twin: Accumulate of sliced batches failed: %v", err)
					return finish(out, lh, sig, start)
				}
				pos += n
			}
			out.Faults["reorder/delivered-via-slice"]++
			if !same(tw, "slices of one big tensor") {
				return finish(out, lh, sig, start)
			}
		}
		// (b') every batch's predictions written with Patch, in two pieces, into a
		// tensor that holds other labels (the targets) and was already read,
		// compared and reduced before: nothing remembered about the old tensor
		// may show through in the patched one
		{
			tw := metrics.NewAccuracy()
			pos := 0
			for _, n := range batches[c] {
				base := vec(allT[c][pos:pos+n], false)
				_ = base.Sum()
				_ = base.Max()
				if _, err := base.Eq(base); err != nil {
					out.Fail("valid-call-rejected", "twin: Eq of a [%d] tensor with itself failed: %v", n, err)
					return finish(out, lh, sig, start)
				}
				warm := metrics.NewAccuracy()
				_ = warm.Accumulate(base, base)
				h := n / 2
				p := base
				var err error
				if h > 0 {
					p, err = p.Patch([]tensor.Range{{From: 0, To: h}}, vec(allP[c][pos:pos+h], false))
				}
				if err == nil {
					p, err = p.Patch([]tensor.Range{{From: h, To: n}}, vec(allP[c][pos+h:pos+n], false))
				}
				if err != nil {
					out.Fail("valid-call-rejected", "twin: Patch of a [%d] tensor in two pieces failed: %v", n, err)
					return finish(out, lh, sig, start)
				}
				if err := tw.Accumulate(p, vec(allT[c][pos:pos+n], false)); err != nil {
					out.Fail("valid-call-rejected", "twin: Accumulate of patched predictions failed: %v", err)
					return finish(out, lh, sig, start)
				}
				pos += n
			}
			out.Faults["reorder/delivered-via-patch"]++
			if !same(tw, "tensors patched into previously used tensors") {
				return finish(out, lh, sig, start)
			}
		}
		// (c) small non-negative integer predictions decoded from one-hot rows with Dot
		k := 0
		ok := true
		for _, v := range allP[c] {
			if v != math.Trunc(v) || v < 0 || v > 5 || math.IsNaN(v) {
				ok = false
				break
			}
			if int(v)+1 > k {
				k = int(v) + 1
			}
		}
		if ok && k >= 2 && tot >= 4 && tot <= 400 {
			a := 2
			for a*a < tot && tot%a != 0 {
				a++
			}
			if tot%a == 0 && tot/a >= 2 {
				b := tot / a
				oh := make([]float64, tot*k)
				for i, v := range allP[c] {
					oh[i*k+int(v)] = 1
				}
				ar := make([]float64, k)
				for i := range ar {
					ar[i] = float64(i)
				}
				dec, err := sim.Leaf([]int{a, b, k}, oh, false).Dot(vec(ar, false))
				if err == nil {
					dec, err = dec.Flatten(0)
				}
				if err != nil {
					out.Fail("valid-call-rejected", "twin: Dot / Flatten decode of a [%d,%d,%d] one-hot tensor failed: %v", a, b, k, err)
					return finish(out, lh, sig, start)
				}
				tw := metrics.NewAccuracy()
				if err := tw.Accumulate(dec, vec(allT[c], false)); err != nil {
					out.Fail("valid-call-rejected", "twin: Accumulate of decoded predictions failed: %v", err)
					return finish(out, lh, sig, start)
				}
				out.Faults["reorder/delivered-via-dot-decode"]++
				if !same(tw, fmt.Sprintf("the Dot-decoded [%d,%d,%d] one-hot encoding of the same predictions", a, b, k)) {
					return finish(out, lh, sig, start)
				}
			}
		}
	}
	na := 0
	for _, a := range accepted {
		if a >= 2 {
			na++
		}
	}
	out.Nontrivial = na > 0 && rejectedBetween
	if rejectedBetween {
		out.Probes["rejected-call-between-accepted"]++
	}
	return finish(out, lh, sig, start)
}

func finish(out *sim.Outcome, lh, sig sim.Hash64, start uint64) *sim.Outcome {
	out.LogHash = lh.Sum()
	out.Sig = sig.Sum()
	out.SimSteps = sim.Now() - start
	return out
}

func (c19) Shrinks(sc *sim.Scenario) []*sim.Scenario {
	var out []*sim.Scenario
	for i := len(sc.Steps) - 1; i >= 0; i-- {
		c := sc.Clone()
		c.Steps = append(c.Steps[:i], c.Steps[i+1:]...)
		out = append(out, c)
	}
	// shrink batches
	for i, s := range sc.Steps {
		if s.Op == "acc" && s.N > 1 {
			c := sc.Clone()
			n := s.N
			c.Steps[i].N = 1
			c.Steps[i].F = []float64{s.F[0], s.F[n]}
			out = append(out, c)
		}
	}
	return out
}
