// Command runner executes simulated runs for one property (see /verif/check).
package main

import (
	"flag"
	"fmt"
	"os"
	"time"

	_ "qverif/props"
	"qverif/sim"
)

func main() {
	var (
		worker  = flag.Bool("worker", false, "worker mode")
		racew   = flag.Bool("raceworker", false, "stage-B worker mode (uninstrumented -race build)")
		prop    = flag.String("prop", "", "property id")
		tier    = flag.String("tier", "quick", "quick|thorough")
		seed    = flag.Uint64("seed", 1, "VERIF_SEED")
		from    = flag.Int("from", 0, "first run index (worker)")
		stride  = flag.Int("stride", 1, "index stride (worker)")
		budget  = flag.Duration("budget", 30*time.Second, "wall-clock budget for runs")
		maxruns = flag.Int("maxruns", 0, "cap on run indices (0: none)")
		workers = flag.Int("workers", 16, "worker processes")
		evid    = flag.String("evidence", "", "evidence file to write")
		replays = flag.String("replays", "replays", "directory for replay files")
		known   = flag.String("known", "", "known findings file")
		replay  = flag.String("replay", "", "replay a file")
		hashes  = flag.Int("hashes", 0, "print log hashes of runs [0,n) (determinism self-test)")
		list    = flag.Bool("list", false, "list properties")
	)
	flag.Parse()
	if *list {
		for _, id := range sim.PropertyIDs() {
			fmt.Println(id)
		}
		return
	}
	self, err := os.Executable()
	if err != nil {
		fmt.Fprintln(os.Stderr, "runner:", err)
		os.Exit(2)
	}
	o := sim.Opts{Prop: *prop, Tier: *tier, Seed: *seed, Workers: *workers, Budget: *budget, MaxRuns: *maxruns,
		Evidence: *evid, Replays: *replays, Known: *known, Self: self}
	switch {
	case *replay != "":
		os.Exit(sim.Replay(*replay, *known))
	case *hashes > 0:
		sim.DumpHashes(o, *hashes)
	case *racew:
		sim.RaceWorker(o, *from, *stride)
	case *worker:
		sim.Worker(o, *from, *stride, false)
	default:
		os.Exit(sim.Batch(o))
	}
}
