#!/usr/bin/env bash
# Determinism self-test: for every property, the per-run scenario hash, event
# log hash and simulated step count of runs [0,N) must be identical across
# repeated executions in separate processes and across GOMAXPROCS 1 / 4 / 16.
# Also: no Go map is iterated on a path that feeds a choice or a log
# (grep), every regress/held replay still holds.
#   tools/selftest.sh [N=40] [props...]
set -u
VERIF="$(cd "$(dirname "$0")/.." && pwd)"
N="${1:-40}"; shift || true
PROPS="${*:-C01 C08 C10 C11 C16 C18 C19 C20}"
export GOFLAGS=-mod=mod GOPROXY=off GOSUMDB=off GOTOOLCHAIN=local
export GODEBUG="${GODEBUG:+$GODEBUG,}randautoseed=0"
export GOCACHE="${QV_GOCACHE:-/verif/.cache/go-build}"
S="$(mktemp -d "${TMPDIR:-/tmp}/qvself.XXXXXX")"; trap 'rm -rf "$S"' EXIT
rsync -a --exclude .git "${QV_REPO:-/repo}"/ "$S/qeep/"
"$VERIF/bin/instrument" "$S/qeep" >/dev/null || exit 2
rsync -a --exclude .git "${QV_REPO:-/repo}"/ "$S/qeep-dense/"
"$VERIF/bin/instrument" -dense "$S/qeep-dense" >/dev/null || exit 2
mkdir -p "$S/h" && rsync -a "$VERIF/harness/" "$S/h/" && cp "$VERIF/harness/go.mod.tmpl" "$S/h/go.mod" && cp "${QV_REPO:-/repo}/go.sum" "$S/h/go.sum"
(cd "$S/h" && go build -trimpath -o "$S/runner" ./cmd/runner) || { echo "selftest: build failed"; exit 2; }
mkdir -p "$S/hd" && rsync -a "$VERIF/harness/" "$S/hd/" && sed "s#=> ../qeep#=> ../qeep-dense#" "$VERIF/harness/go.mod.tmpl" > "$S/hd/go.mod" && cp "${QV_REPO:-/repo}/go.sum" "$S/hd/go.sum"
(cd "$S/hd" && go build -trimpath -o "$S/runner-dense" ./cmd/runner) || { echo "selftest: dense build failed"; exit 2; }
export QV_SITES="$S/qeep/zzsimhook/sites.tsv"
rc=0
echo "selftest: map iteration / sync.Map.Range in harness paths:"
grep -n "range [a-zA-Z_.]*\(\[[^]]*\]\)*$\|\.Range(func" "$VERIF"/harness/sim/*.go "$VERIF"/harness/props/*.go | grep -v "sort\|// ok-map" | head -40
for p in $PROPS; do
  ref=""
  RUNNER="$S/runner"; SITES="$S/qeep/zzsimhook/sites.tsv"
  if [ "$p" = C20 ]; then RUNNER="$S/runner-dense"; SITES="$S/qeep-dense/zzsimhook/sites.tsv"; fi
  for gmp in 1 4 16; do for rep in 1 2; do
    out="$S/$p.$gmp.$rep"
    QV_SITES="$SITES" GOMAXPROCS=$gmp VERIF_SEED="${VERIF_SEED:-1}" "$RUNNER" -prop "$p" -tier quick -seed "${VERIF_SEED:-1}" -hashes "$N" -known "$VERIF/known_findings.json" > "$out" 2>"$out.err" || { echo "selftest: $p runner failed"; cat "$out.err" | head; rc=2; }
    if [ -z "$ref" ]; then ref="$out"; elif ! cmp -s "$ref" "$out"; then echo "selftest: $p NOT deterministic (GOMAXPROCS=$gmp rep=$rep)"; diff "$ref" "$out" | head -6; rc=1; fi
  done; done
  echo "selftest: $p $(wc -l < "$ref") runs x 6 executions identical: $([ $rc -eq 0 ] && echo yes || echo NO)  violations-in-sample: $(awk 'NF>=6' "$ref" | wc -l) discards: $(awk '$5!="" && NF>=5 && $5 !~ /^[a-z-]*$/ {next} NF==5' "$ref" | wc -l)"
done
for f in "$VERIF"/regress/held/*.json; do
  [ -f "$f" ] || continue
  o="$("$S/runner" -replay "$f" -known "$VERIF/known_findings.json" 2>&1)"
  echo "$o" | grep -q "held (no violation)" || { echo "selftest: regression replay $f no longer holds: $o" | head -3; rc=1; }
done
for f in "$VERIF"/regress/discarded/*.json; do
  [ -f "$f" ] || continue
  o="$("$S/runner" -replay "$f" -known "$VERIF/known_findings.json" 2>&1)"
  echo "$o" | grep -q "discarded" || { echo "selftest: regression replay $f is no longer discarded: $o" | head -3; rc=1; }
done
echo "selftest: exit $rc"
exit $rc
