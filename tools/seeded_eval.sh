#!/usr/bin/env bash
# tools/seeded_eval.sh <id> <outdir> <i> <prop[,prop]> <demo-dir-relative-to-repo> [tier]
# Confirms a sub-agent's change independently (scratch worktree: existing tests
# pass with it, demo fails with it, demo passes without it), runs the named
# checks against it (apply to /repo, run, revert) and files it under
# /verif/seeded/<id>/.
set -u
ID="$1"; OUT="$2"; I="$3"; PROPS="$4"; DEMODIR="$5"; TIER="${6:-quick}"
export GOFLAGS=-mod=mod GOPROXY=off GOSUMDB=off GOTOOLCHAIN=local
PATCH="$OUT/patch$I.diff"; DEMO="$OUT/demo${I}_test.go"
[ -f "$PATCH" ] && [ -f "$DEMO" ] || { echo "SEEDED $ID missing files"; exit 2; }
W="$(mktemp -d /tmp/sv.XXXXXX)"; rmdir "$W"
git -C /repo worktree add -q --detach "$W" HEAD || exit 2
cleanup() { git -C /repo worktree remove --force "$W" 2>/dev/null; rm -rf "$W"; }
trap cleanup EXIT
cp "$DEMO" "$W/$DEMODIR/zz_demo_seeded_test.go"
pristine_demo="fail"; (cd "$W" && go test -vet=off -count=1 "./$DEMODIR/" >/tmp/sv-pristine.log 2>&1) && pristine_demo="pass"
rm -f "$W/$DEMODIR/zz_demo_seeded_test.go"
applies="no"; git -C "$W" apply "$PATCH" 2>/dev/null && applies="yes"
builds="no"; (cd "$W" && go build ./... >/dev/null 2>&1) && builds="yes"
suite="fail"; (cd "$W" && go test -vet=off -count=1 ./... >/tmp/sv-suite.log 2>&1) && suite="pass"
cp "$DEMO" "$W/$DEMODIR/zz_demo_seeded_test.go"
changed_demo="pass"; (cd "$W" && go test -vet=off -count=1 "./$DEMODIR/" >/tmp/sv-changed.log 2>&1) || changed_demo="fail"
cleanup; trap - EXIT
echo "SEEDED $ID applies=$applies builds=$builds suite=$suite demo_pristine=$pristine_demo demo_changed=$changed_demo"
valid="no"; [ "$applies$builds$suite$pristine_demo$changed_demo" = "yesyespasspassfail" ] && valid="yes"
res=""
if [ "$valid" = yes ]; then
  res="$(cd /verif && tools/mutant.sh "$PATCH" "$PROPS" "$TIER" 2>&1)"
  echo "$res" | cut -c1-300
fi
D="/verif/seeded/$ID"; mkdir -p "$D"
cp "$PATCH" "$D/patch.diff"; cp "$DEMO" "$D/demo_test.go"; [ -f "$OUT/notes$I.md" ] && cp "$OUT/notes$I.md" "$D/notes.md"
python3 - "$ID" "$PROPS" "$DEMODIR" "$valid" "$TIER" <<PY
import json,sys,re,datetime
id,props,demodir,valid,tier=sys.argv[1:6]
res='''$res'''
checks={}
for line in res.splitlines():
    m=re.match(r'MUTANT \S+ (C\d+) (caught|MISSED|broken\S*)(.*)',line)
    if m: checks[m.group(1)]={"result":m.group(2),"detail":m.group(3).strip(': ')[:300]}
meta={"id":id,"breaks_property":props.split(',')[0],"checks_run":props.split(','),"tier":tier,
 "confirmed":{"applies":"$applies","builds":"$builds","existing_suite_with_change":"$suite","demo_on_pristine":"$pristine_demo","demo_with_change":"$changed_demo"},
 "valid":valid=="yes","demo_dir":demodir,
 "what_i_ran":"tools/seeded_eval.sh: scratch worktree of /repo HEAD; go test ./... with the patch; demo test with and without the patch; then tools/mutant.sh (git -C /repo apply, ./check <prop> "+tier+", git -C /repo checkout -- .)",
 "check_results":checks,"needs":"see notes.md"}
json.dump(meta,open("/verif/seeded/%s/meta.json"%id,"w"),indent=1)
PY
