#!/usr/bin/env python3
"""Regenerates /verif/MANIFEST.json from the table below (kept in one place so it is always valid)."""
import json, os
HERE = os.path.dirname(os.path.dirname(os.path.abspath(__file__)))

CLAIMED = {
 "C20": dict(level="exploration", ref="§4 C20",
   technique="deterministic simulation: tasks run as goroutines under a baton-passing cooperative scheduler that switches only at AST-inserted yield points according to an explicit seeded preemption plan (random / PCT-style / biased to in-flight-state sites); solo-vs-interleaved result equality (results, error words of rejected calls), shared-state fingerprints at every context switch, step budgets; complemented by the same scenarios under the Go race detector with real parallelism (labelled runtime monitoring)",
   text="Stage A decides every interleaving itself: exactly one task goroutine runs at a time and the baton moves at yield points (a yield before EVERY statement of the scratch copy, mutexes bracketed so that no task is parked inside a critical section) according to the scenario's explicit plan (random switching, PCT-style change points, class-restricted switch storms started inside a back-propagation or a random constructor; on small scenarios every single-preemption schedule is enumerated), so a failing schedule replays exactly and is minimised. Oracles: each task's every result equals its solo run bitwise (RNG-derived values by shape, support and independence of the underlying variates), the reflected state of every shared tensor / layer / activation / loss / initializer is unchanged at every switch and at the end, no panic, bounded steps. Stage B re-runs the same scenarios (more often with large shared tensors) on an uninstrumented -race build with real parallelism. Sampling over programs and schedules, exhaustive over single preemptions on the enumerated scenarios.",
   note="Trusted: the scheduler (one runnable goroutine at a time), reflect-based fingerprints. Yield points exist only in qeep's own code. Stage B's interleavings are uncontrolled."),
 "C18": dict(level="exploration", ref="§4 C18",
   technique="deterministic simulation of the library's only nondeterministic input: the global RNG is pinned through its seed seam (one run seed = one replayable sample); seeded search over seeds x configurations x call orders (with rejected calls between the draws) with deterministic per-call checks and 7-sigma statistical checks per pooled sample",
   text="Each run seeds the library's RNG, issues 50-400 initializer / RandU / RandN calls from 1-3 clients in a scheduler-chosen order and pools the draws per configuration. Every call is checked for shape, tracking (observable through back-propagation), support with the documented bound, the Full constant and freshness; every pool of >= 20000 elements for mean, variance, KS distance, row-major lag-1 autocorrelation and cross-call correlation at 7 standard errors of the configured distribution. A failing run replays exactly from its seed. Sampling; no fault kind applies.",
   note="Trusted: textbook moments / CDFs in props/c18.go. The seam self-test (same seed, same tensor) runs at the start of every run; failure is exit 2."),
 "C16": dict(level="exploration", ref="§4 C16",
   technique="deterministic simulation: user and operator clients interleaved at call granularity on one FC layer, pointer-swap fault at arbitrary instants (incl. between Forward and BackPropagate), invalid-call faults; reference model of the slots and of which parameter objects were current at each forward",
   text="Seeded histories in which an operator replaces W / B through the Weights() pointers at arbitrary instants while a user runs Forward and back-propagates weighted outputs. Every forward is compared with the affine formula at the model's current parameters (and a bitwise row-independence twin), Weights() must keep returning the same live addresses, and after every back-propagation the gradients must sit on the parameter objects that were current at forward time, with the parameters' shape and the formula's derivative; a dual-mode reference separates the known broadcast-mean finding. Sampling, not proof.",
   note="Trusted: the closed-form model in props/c16.go. Spent parameter objects make later forwards 'dead' per C08; that rule is part of the model."),
 "C11": dict(level="fault_enumeration", ref="§4 C11",
   technique="deterministic simulation of training histories with protocol faults (step omission / duplication / reorder / invalid call) enumerated over every step; step-by-step comparison against an independent scalar reverse-mode reference evaluated at the implementation's current weights; bounded recovery (one step after the missing reset)",
   text="Seeded training histories FC -> activation -> loss assembled from the library's own parts. Every step's loss and weight update is compared with an independent reference (a scalar tape) at the current weights; for each history every protocol fault kind is injected at every step: after an omitted reset / back-propagation the next Update of every weight must fail and replace nothing, and the step after the reset is restored must match the reference again. A dual-mode reference separates the known broadcast-mean finding from any other deviation. Exhaustive over fault placement within a history, sampling over histories.",
   note="Trusted: props/tape.go and the forward formulas written in the harness. Histories at non-differentiable points are discarded and counted."),
 "C10": dict(level="fault_enumeration", ref="§4 C10",
   technique="deterministic simulation with an alias-scribble fault: for each seeded program over the slice-taking / slice-returning API, every registered caller-visible slice x instant is re-executed with the caller overwriting the slice; twin-run equality of every observation plus immutability invariants after every step, including rejected calls (invalid-call fault)",
   text="Seeded programs over the public surface that takes or returns slices, followed by BackPropagate / Update / Reset. Fault placement is enumerated per program (quick: every slice x {right after the call, just before each later BackPropagate, at the end}; thorough: x every later instant). Every observation of the faulted run must equal the un-faulted twin bitwise, and in every run no step may change an existing tensor's shape/elements, gradients appear only during BackPropagate on tensors upstream of the root, tracking state changes only by ResetGradContext. Exhaustive over fault placement within a program, sampling over programs.",
   note="Trusted: reflect-based fingerprints, the operand-link notion of 'upstream'. Scribbles overwrite in place (no append); the RNG is re-seeded identically for twin and faulted run."),
 "C08": dict(level="exploration", ref="§4 C08",
   technique="deterministic simulation: seeded interleaved histories of creation / operations / BackPropagate / ResetGradContext by 1-4 clients on a shared pool with invalid-call faults, checked step by step against a small reference state machine, plus untracked twin run and final back-propagation sweep",
   text="Seeded search over call histories on a shared tensor pool. A reference state machine (tracked, spent, hasGrad, operand links) makes every tracking decision and enforces the property's provisos during generation; after every step the nil-ness of every tensor's gradient, the reflected state of every tensor the step must not touch, and the effect of rejected calls are compared with the model; a twin run with tracking off must give bitwise-equal forward values; a final sweep back-propagates every tensor still allowed so that 'tracked' becomes observable. Sampling, not proof.",
   note="Trusted: the reference state machine (60 lines), reflect-based fingerprints. Situations the statement leaves open (mixing tracked operands with gradient tensors / comparisons of spent tensors) are not generated."),
 "C01": dict(level="exploration", ref="§4 C01",
   technique="deterministic simulation: seeded DAG-building clients over shared leaves under a call-granularity scheduler; tree-unfolding twin run, exact finite differences on linear programs, additivity/order twins, invalid-call faults (rejected calls on graph tensors that the twins do not make), bounded liveness in simulated steps (yield count) per back-propagation",
   text="Seeded search over operation DAGs (diamond chains, ladders, fan-outs, random reuse; 1-4 graphs sharing leaves; scheduler-chosen construction interleaving and back-propagation order). Each run compares the real back-propagation with (a) a twin in which every shared sub-expression is recomputed per consumer, (b) cone-split twins (every use of one reconvergent node recomputes its cone) that work at any depth, (c) exact finite differences for linear programs, (d) a narrow directional central-difference anchor for small smooth programs without broadcast expansion, (e) per-graph runs with shared leaves split per edge and the reversed order, and bounds the work of each back-propagation in simulated steps and in backward-rule applications. Sampling, not proof.",
   note="Trusted: every single-consumer backward rule (C02/C07 are not applicable to this technique), float addition in the harness, the yield-count clock of the instrumented copy. Operands are kept away from non-differentiable points."),
 "C19": dict(level="fault_enumeration", ref="§4 C19",
   technique="deterministic simulation: seeded call histories on 1-3 metric instances with injected invalid calls (enumerated over every position in thorough), two-integer reference model checked after every call, re-partition twin",
   text="Seeded search over Accumulate/Result histories (batch sizes up to 300, labels incl. -0, huge values, NaN, +-Inf, re-submission of the same tensor objects) with invalid-call faults; every history is compared call by call against a two-integer model, rejected calls must leave the metric's reflected state unchanged, and the same data re-delivered under another partition — also stacked with Concat, cut with Slice, or decoded from a one-hot tensor with Dot — must give the identical result. Thorough enumerates every fault kind at every position of each history. Sampling over histories, exhaustive over fault placement within a history.",
   note="Trusted: the harness model (two counters), reflect-based state fingerprint. Labels are identical or far apart; NaN/Inf labels not generated."),
}

NA = {
 "C02": "a single operation's backward rule vs. its vector-Jacobian product is a pure function of (shape, argument, values): no schedule, history, fault or nondeterminism for a simulator to control",
 "C03": "element-wise operators and implicit broadcasting are pure value/shape functions of their arguments",
 "C04": "MatMul / Dot / Transpose index arithmetic is a pure value/shape function",
 "C05": "reductions are pure value/shape functions",
 "C06": "indexing / reshaping / construction is pure element movement",
 "C07": "gradient of a broadcast operand: one forward, one backward, pure in (shapes, upstream gradient)",
 "C09": "totality over argument tuples is input enumeration; qeep has no allocation / syscall / I/O seam where a run-time fault could be injected and no state to corrupt",
 "C12": "loss values are pure functions of (prediction, target)",
 "C13": "loss gradients w.r.t. predictions are pure in (graph, values); the graph-level part they rely on is what C01 decides",
 "C14": "activation values are pure functions of the input",
 "C15": "activation gradients are pure in (graph, values); the graph-level part is C01",
 "C17": "one SGD update is a pure function of (w, g, lr); its clauses are exercised at every update inside the C11 histories but not claimed",
}

def main():
    checks = []
    for pid in sorted(CLAIMED):
        c = CLAIMED[pid]
        checks.append({
            "property_id": pid,
            "quick_cmd": f"./check {pid} quick",
            "thorough_cmd": f"./check {pid} thorough",
            "evidence_file": f"/verif/evidence/{pid}.json",
            "replay_cmd_template": "./check replay {path}",
            "engine": "qsim",
            "level_claimed": {"category": c["level"], "text": c["text"], "design_ref": c["ref"]},
            "level_note": c["note"],
            "technique": c["technique"],
        })
    m = {
        "version": 1,
        "setup_cmd": "./check setup",
        "hooks": {
            "guard": "verif",
            "enable": "no hook lives in /repo: every check copies /repo's working tree to a scratch directory and inserts yield points there with /verif/tools/instrument (go/ast); the build tag 'verif' is reserved and unused",
            "baseline_off_cmd": "cd /repo && go test -vet=off -count=1 -timeout 25m ./...",
            "source_commits": [],
            "add_only": True,
        },
        "engines": [{
            "name": "qsim",
            "path": "/verif/harness",
            "serves_properties": sorted(CLAIMED),
            "kind_free_text": "deterministic simulation with fault injection: seeded scenario generator, call-granularity and yield-granularity (baton-passing) schedulers over an AST-instrumented scratch copy of /repo, simulated clock = yield count, library-analogue fault kinds, twin-run / reference-model / bounded-liveness oracles, structure-aware minimisation and exact replay",
        }],
        "checks": checks,
        "notes": "See DESIGN.md. Exit 2 from a check means build / instrumentation / harness-determinism trouble, never a property verdict.",
        "not_applicable": [{"property_id": k, "reason": NA[k]} for k in sorted(NA)] +
            [{"property_id": k, "reason": "check not yet registered in this commit (planned, see DESIGN.md §4)"} for k in PENDING],
    }
    with open(os.path.join(HERE, "MANIFEST.json"), "w") as f:
        json.dump(m, f, indent=1)
        f.write("\n")

PENDING = ["C01", "C08", "C10", "C11", "C16", "C18", "C20"]
PENDING = [p for p in PENDING if p not in CLAIMED]
if __name__ == "__main__":
    main()
