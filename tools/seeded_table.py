#!/usr/bin/env python3
"""Writes /verif/seeded/README.md from the meta.json files."""
import json, glob, os
rows=[]
for m in sorted(glob.glob('/verif/seeded/*/meta.json')):
    d=json.load(open(m))
    notes=os.path.join(os.path.dirname(m),'notes.md')
    first=''
    if os.path.exists(notes):
        for line in open(notes):
            line=line.strip().lstrip('#').strip()
            if line: first=line[:160]; break
    res='; '.join('%s: %s'%(k,v['result']) for k,v in sorted(d.get('check_results',{}).items()))
    ora='; '.join('%s → %s'%(k,(v['detail'].split('failed oracle ')[-1].split(':')[0] if 'failed oracle' in v['detail'] else v['detail'][:40])) for k,v in sorted(d.get('check_results',{}).items()) if v['result']=='caught')
    rows.append((d['id'],d['breaks_property'],'yes' if d['valid'] else 'NO',res,ora,first,d.get('history','')))
with open('/verif/seeded/README.md','w') as f:
    f.write("# Property-breaking changes written by independent sub-agents\n\nEach sub-agent saw only the text of one property and a scratch worktree of /repo (nothing from /verif). A change is kept only after `tools/seeded_eval.sh` confirmed in a scratch worktree that it applies, builds, passes the repository's own tests, and that its demonstration fails with it and passes without it. `check results` is what the registered quick checks said with the change applied to /repo (and reverted afterwards).\n\n")
    f.write("| id | property | confirmed | check results (quick tier) | oracle that fired | what the change is | history |\n|---|---|---|---|---|---|---|\n")
    for r in rows: f.write("| "+" | ".join(x.replace('|','/') for x in r)+" |\n")
print(len(rows),"rows")
