#!/usr/bin/env bash
# Developer convenience: instrumented scratch copy at /tmp/qvdev/qeep and a
# git-ignored go.mod in /verif/harness pointing at it, for `go vet` / `go build`
# while editing. Not used by any registered check.
set -eu
export GOFLAGS=-mod=mod GOPROXY=off GOSUMDB=off GOTOOLCHAIN=local
rm -rf /tmp/qvdev && mkdir -p /tmp/qvdev
rsync -a --exclude .git /repo/ /tmp/qvdev/qeep/
/verif/bin/instrument /tmp/qvdev/qeep
sed "s#=> ../qeep#=> /tmp/qvdev/qeep#" /verif/harness/go.mod.tmpl > /verif/harness/go.mod
cp /repo/go.sum /verif/harness/go.sum
echo "export QV_SITES=/tmp/qvdev/qeep/zzsimhook/sites.tsv"
