#!/usr/bin/env bash
# Re-runs every kept seeded change (and every mutant with a .props file)
# against the current checks, on scratch worktrees (never touches /repo).
# Prints one line per (change, check); exit 1 if a change whose primary
# property was caught before is now missed.
set -u
cd "$(dirname "$(readlink -f "$0")")/.." || exit 2
export QV_MUT_WORKTREE=1
rc=0
for m in seeded/*/meta.json; do
  d=$(dirname "$m"); id=$(basename "$d")
  prop=$(python3 -c "import json;print(json.load(open('$m'))['breaks_property'])")
  out=$(QV_BUDGET="${QV_RERUN_BUDGET:-40s}" tools/mutant.sh "$d/patch.diff" "$prop" 2>&1 | grep "^MUTANT" | head -1)
  echo "$id $out" | cut -c1-220
  echo "$out" | grep -q " caught" || rc=1
done
exit $rc
