#!/usr/bin/env python3
"""Writes hand-made mutant patches (DESIGN §7) into /verif/mutants/ as unified diffs against /repo HEAD."""
import subprocess, os, sys
R='/repo'
M=[
 # name, file, old, new, checks
 ("H-c01-accumulate-overwrites","tensor/internal/gradtrack/back_propagation.go","		gctx.gradient, err = gctx.gradient.Add(grad)\n		if err != nil {\n			return\n		}","		gctx.gradient = grad","C01"),
 ("H-c01-release-before-last-consumer","tensor/internal/gradtrack/back_propagation.go","			pending[target]--\n			if pending[target] == 0 {","			pending[target]--\n			if pending[target] <= 1 && !released[target] {\n				released[target] = true","C01"),
 ("H-c01-seed-of-twos","tensor/internal/gradtrack/back_propagation.go","			return toOnes(t), nil","			return toOnes(t).Scale(2), nil","C01"),
 ("H-c08-comparison-tracked","tensor/internal/cputensor/cputensor.go","	r := t.eq(cu)\n	r.gctx = gradtrack.NewGradContext(false)","	r := t.eq(cu)\n	r.gctx = gradtrack.NewGradContext(t.gctx != nil && cu.gctx != nil && t.Gradient() == nil && gradtrack.IsTracked(t.gctx))","C08"),
 ("H-c08-dirty-first-operand-only","tensor/internal/gradtrack/gradtrack.go","	for _, t := range ts {\n		gctx := gradContextOf(t)\n		if gctx.bpdirty {\n			return true\n		}\n	}\n\n	return false","	for _, t := range ts[:1] {\n		gctx := gradContextOf(t)\n		if gctx.bpdirty {\n			return true\n		}\n	}\n\n	return false","C08"),
 ("H-c08-tracked-ignores-last","tensor/internal/gradtrack/gradtrack.go","func nonIsTracked(ts ...tensor.Tensor) (ok bool) {\n	for _, t := range ts {","func nonIsTracked(ts ...tensor.Tensor) (ok bool) {\n	if len(ts) > 2 {\n		ts = ts[:len(ts)-1]\n	}\n	for _, t := range ts {","C08,C01"),
 ("H-c08-walk-does-not-mark-spent","tensor/internal/gradtrack/back_propagation.go","func deliver(gctx *GradContext, edge *backwardEdge) (err error) {\n	gctx.bpdirty = true\n","func deliver(gctx *GradContext, edge *backwardEdge) (err error) {\n	gctx.bpdirty = len(gctx.backEdges) > 0\n","C08,C11"),
 ("H-c08-reset-keeps-gradient","tensor/internal/cputensor/cputensor.go","func (t *CPUTensor) ResetGradContext(tracked bool) {\n	t.gctx = gradtrack.NewGradContext(tracked)","func (t *CPUTensor) ResetGradContext(tracked bool) {\n	t.gctx = gradtrack.NewGradContextKeeping(tracked, t.gctx)","C08,C11,C10"),
 ("H-c08-untracked-root-seeds","tensor/internal/gradtrack/back_propagation.go","	if !root.tracked {\n		return nil\n	}","	if !root.tracked && len(t.Shape()) > 0 {\n		return nil\n	}","C08"),
 ("H-c10-full-keeps-dims","tensor/internal/cputensor/initializers.go","func constTensor(value float64, dims []int) (t *CPUTensor) {\n	t = new(CPUTensor)\n	t.dims = make([]int, len(dims))\n	copy(t.dims, dims)","func constTensor(value float64, dims []int) (t *CPUTensor) {\n	t = new(CPUTensor)\n	t.dims = dims","C10"),
 ("H-c10-reshape-keeps-shape","tensor/internal/cputensor/shape_modifiers.go","func (t *CPUTensor) reshape(shape []int) (o *CPUTensor) {\n	elemGen := t.linearElemGenerator()\n	dims := make([]int, len(shape))\n	copy(dims, shape)","func (t *CPUTensor) reshape(shape []int) (o *CPUTensor) {\n	elemGen := t.linearElemGenerator()\n	dims := shape","C10"),
 ("H-c10-shape-returns-dims","tensor/internal/cputensor/cputensor.go","	shape = make([]int, len(t.dims))\n	copy(shape, t.dims)\n	return shape","	return t.dims","C10"),
 ("H-c10-concat-lazy-xs","tensor/internal/gradtrack/gradients.go","		backEdges[i] = &backwardEdge{\n			target: xs[i],\n			gradFn: func() (tensor.Tensor, error) {\n				return y.Gradient().Slice(index)\n			},","		i := i\n		backEdges[i] = &backwardEdge{\n			target: xs[i],\n			gradFn: func() (tensor.Tensor, error) {\n				if xs[i] == nil {\n					return nil, nil\n				}\n				return y.Gradient().Slice(index)\n			},","C10"),
 ("H-c10-sgd-in-place-when-zero-lr","component/optimizers/sgd.go","	delta := g.Scale(c.learningRate)\n","	if c.learningRate == 0 {\n		return nil\n	}\n\n	delta := g.Scale(c.learningRate)\n","C11,C10"),
 ("H-c11-missing-nil-gradient-check","component/optimizers/sgd.go","	g = w.Gradient()\n	if g == nil {\n		err = fmt.Errorf(\"expected tensor's gradient not to be nil\")\n		return\n	}","	g = w.Gradient()\n	if g == nil {\n		g = w.Scale(0)\n	}","C11"),
 ("H-c11-dirty-context-not-dirty","tensor/internal/gradtrack/gradtrack.go","	gctx = NewGradContext(false)\n	gctx.bpdirty = true\n	return gctx","	gctx = NewGradContext(false)\n	return gctx","C08,C11"),
 ("H-c16-weights-pointer-to-copy","component/layers/fc.go","func (c *FC) Weights() []Weight {\n	return []Weight{","func (c *FC) Weights() []Weight {\n	w, b := c.Weight, c.Bias\n	_ = b\n	return []Weight{","C16"),
 ("H-c16-bias-before-reduction","component/layers/fc.go","	y, err = y.SumAlong(2) // last dim\n	if err != nil {\n		return\n	}\n\n	y, err = y.Add(b)\n	if err != nil {\n		return\n	}","	bb, err := b.UnSqueeze(1)\n	if err != nil {\n		return\n	}\n\n	y, err = y.Add(bb)\n	if err != nil {\n		return\n	}\n\n	y, err = y.SumAlong(2) // last dim\n	if err != nil {\n		return\n	}","C16,C11"),
 ("H-c19-total-plus-one-for-singletons","component/metrics/accuracy.go","	c.total += eq.Shape()[0]","	c.total += len(eq.Shape()) * eq.NElems()","C19"),
 ("H-c19-count-before-eq","component/metrics/accuracy.go","	eq, err := yp.Eq(yt)\n	if err != nil {\n		return\n	}\n\n	c.total += eq.Shape()[0]","	c.total += yp.Shape()[0]\n\n	eq, err := yp.Eq(yt)\n	if err != nil {\n		return\n	}\n","C19"),
]
extra={
 "H-c01-release-before-last-consumer":("tensor/internal/gradtrack/back_propagation.go","	ready := []*GradContext{root}\n","	ready := []*GradContext{root}\n	released := map[*GradContext]bool{}\n"),
 "H-c08-comparison-tracked":("tensor/internal/gradtrack/gradtrack.go","func (gctx *GradContext) Gradient() (g tensor.Tensor) {","func IsTracked(gctx *GradContext) bool { return gctx.tracked && !gctx.bpdirty }\n\nfunc (gctx *GradContext) Gradient() (g tensor.Tensor) {"),
 "H-c08-reset-keeps-gradient":("tensor/internal/gradtrack/gradtrack.go","func NewDirtyGradContext() (gctx *GradContext) {","func NewGradContextKeeping(tracked bool, old *GradContext) (gctx *GradContext) {\n	gctx = NewGradContext(tracked)\n	if old != nil && !tracked {\n		gctx.gradient = old.gradient\n	}\n	return gctx\n}\n\nfunc NewDirtyGradContext() (gctx *GradContext) {"),
 "H-c16-weights-pointer-to-copy":("component/layers/fc.go","			Value:     &c.Weight,","			Value:     &w,"),
}
def sh(*a): return subprocess.run(a,cwd=R,capture_output=True,text=True)
assert sh('git','status','--porcelain').stdout.strip()=="", "repo not clean"
for name,f,old,new,props in M:
    edits=[(f,old,new)]
    if name in extra: edits.append(extra[name])
    ok=True
    for (ff,o,n) in edits:
        p=os.path.join(R,ff); s=open(p).read()
        if o not in s: print("SKIP",name,"pattern not found in",ff); ok=False; break
        open(p,'w').write(s.replace(o,n,1))
    if ok:
        d=sh('git','diff').stdout
        open('/verif/mutants/%s.diff'%name,'w').write(d)
        open('/verif/mutants/%s.props'%name,'w').write(props+"\n")
    sh('git','checkout','--','.')
print("done")
