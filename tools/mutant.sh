#!/usr/bin/env bash
# tools/mutant.sh <patch.diff> <Cxx>[,<Cyy>...] [tier]
# Applies a patch to /repo's working tree, checks that the repository still
# builds and passes its own tests, runs the named checks, and reverts.
# Prints one line per check: MUTANT <patch> <prop> caught|MISSED|broken(rc).
set -u
P="$(readlink -f "$1")"; PROPS="$2"; TIER="${3:-quick}"; SELF="$(readlink -f "$0")"
export GOFLAGS=-mod=mod GOPROXY=off GOSUMDB=off GOTOOLCHAIN=local
if [ "${QV_MUT_WORKTREE:-1}" = 1 ]; then
  # work on a scratch worktree of /repo's HEAD instead of /repo itself (background re-runs)
  WT="$(mktemp -d /tmp/qvmut-wt.XXXXXX)"; rmdir "$WT"
  git -C /repo worktree add -q --detach "$WT" HEAD || exit 2
  export QV_REPO="$WT"
  cd "$WT" || exit 2
  revert() { git -C /repo worktree remove --force "$WT" 2>/dev/null; rm -rf "$WT"; }
else
  cd /repo || exit 2
  [ -z "$(git status --porcelain)" ] || { echo "mutant.sh: /repo is not clean" >&2; exit 2; }
  revert() { git -C /repo checkout -- . ; git -C /repo clean -fdq; }
fi
trap revert EXIT INT TERM
git apply "$P" || { echo "MUTANT $(basename "$P") does-not-apply"; exit 2; }
if ! go build ./... >/dev/null 2>&1; then echo "MUTANT $(basename "$P") does-not-compile"; exit 2; fi
if ! go test -vet=off -count=1 ./... >/tmp/mutant-tests.log 2>&1; then echo "MUTANT $(basename "$P") fails-own-tests"; grep -m3 "FAIL" /tmp/mutant-tests.log; [ "${QV_MUT_FORCE:-0}" = 1 ] || exit 3; fi
cd "$(dirname "${SELF:-$(readlink -f "$0")}")/.." || exit 2
# evidence and replay files of mutant runs must not overwrite those of the real tree
export QV_EVIDENCE_DIR="$(mktemp -d /tmp/qvmut-ev.XXXXXX)" QV_REPLAY_DIR="$(mktemp -d /tmp/qvmut-rp.XXXXXX)"
for prop in ${PROPS//,/ }; do
  out="$(./check "$prop" "$TIER" 2>&1)"; rc=$?
  case $rc in
    1) echo "MUTANT $(basename "$P") $prop caught: $(echo "$out" | grep -m1 'failed oracle\|violation in scenario' | cut -c1-220)";;
    0) echo "MUTANT $(basename "$P") $prop MISSED";;
    *) echo "MUTANT $(basename "$P") $prop broken(rc=$rc)"; echo "$out" | tail -5;;
  esac
done
rm -rf "$QV_EVIDENCE_DIR" "$QV_REPLAY_DIR"
