// Command instrument inserts simulator yield points into a scratch copy of
// the qeep working tree. Stdlib only (go/parser, go/ast, go/format).
//
//	instrument <dir>
//
// For every non-test .go file below <dir> it inserts
//
//	zzsimhook.Yield(<site>)
//
// as the first statement of every function declaration, every function
// literal and every for / range body, adds the import, writes package
// <module>/zzsimhook (Hook is nil by default: a yield is then one nil check)
// and <dir>/zzsimhook/sites.tsv (site, kind, file:line, enclosing function).
package main

import (
	"bufio"
	"bytes"
	"fmt"
	"go/ast"
	"go/format"
	"go/parser"
	"go/token"
	"os"
	"path/filepath"
	"sort"
	"strconv"
	"strings"
)

type site struct {
	id   int
	kind string
	pos  string
	fn   string
}

func modulePath(dir string) (string, error) {
	f, err := os.Open(filepath.Join(dir, "go.mod"))
	if err != nil {
		return "", err
	}
	defer f.Close()
	sc := bufio.NewScanner(f)
	for sc.Scan() {
		ln := strings.TrimSpace(sc.Text())
		if strings.HasPrefix(ln, "module ") {
			return strings.TrimSpace(strings.TrimPrefix(ln, "module ")), nil
		}
	}
	return "", fmt.Errorf("no module line in go.mod")
}

func main() {
	stub, dense := false, false
	args := os.Args[1:]
	for len(args) > 0 && strings.HasPrefix(args[0], "-") {
		switch args[0] {
		case "-stub":
			stub = true
		case "-dense":
			// a yield before EVERY statement, and lock bookkeeping: the scheduler
			// must not switch tasks while the running one holds a mutex
			dense = true
		}
		args = args[1:]
	}
	if len(args) != 1 {
		fmt.Fprintln(os.Stderr, "usage: instrument [-stub] [-dense] <dir>")
		os.Exit(2)
	}
	root := args[0]
	mod, err := modulePath(root)
	if err != nil {
		fmt.Fprintln(os.Stderr, "instrument:", err)
		os.Exit(2)
	}
	hookImport := mod + "/zzsimhook"

	var files []string
	err = filepath.Walk(root, func(p string, info os.FileInfo, err error) error {
		if err != nil {
			return err
		}
		if info.IsDir() {
			n := info.Name()
			if n == ".git" || n == "zzsimhook" || n == "vendor" || n == "testdata" {
				return filepath.SkipDir
			}
			return nil
		}
		if strings.HasSuffix(p, ".go") && !strings.HasSuffix(p, "_test.go") {
			files = append(files, p)
		}
		return nil
	})
	if err != nil {
		fmt.Fprintln(os.Stderr, "instrument:", err)
		os.Exit(2)
	}
	sort.Strings(files)
	if stub {
		// only the hook package, no yield points: used for the -race build
		files = nil
	}

	var sites []site
	next := 0
	timeRewrites := 0
	for _, path := range files {
		fset := token.NewFileSet()
		f, err := parser.ParseFile(fset, path, nil, parser.ParseComments)
		if err != nil {
			fmt.Fprintln(os.Stderr, "instrument: parse:", err)
			os.Exit(2)
		}
		rel, _ := filepath.Rel(root, path)
		before := next
		var fnStack []string
		mk := func(kind string, pos token.Pos) ast.Stmt {
			id := next
			next++
			fn := "-"
			if len(fnStack) > 0 {
				fn = fnStack[len(fnStack)-1]
			}
			sites = append(sites, site{id, kind, fmt.Sprintf("%s:%d", rel, fset.Position(pos).Line), f.Name.Name + "." + fn})
			return &ast.ExprStmt{X: &ast.CallExpr{
				Fun:  &ast.SelectorExpr{X: ast.NewIdent("zzsimhook"), Sel: ast.NewIdent("Yield")},
				Args: []ast.Expr{&ast.BasicLit{Kind: token.INT, Value: strconv.Itoa(id)}},
			}}
		}
		prepend := func(b *ast.BlockStmt, s ast.Stmt) {
			b.List = append([]ast.Stmt{s}, b.List...)
		}
		var walk func(n ast.Node)
		walk = func(n ast.Node) {
			ast.Inspect(n, func(n ast.Node) bool {
				switch v := n.(type) {
				case *ast.FuncDecl:
					if v.Body == nil {
						return false
					}
					name := v.Name.Name
					if v.Recv != nil && len(v.Recv.List) > 0 {
						var b bytes.Buffer
						format.Node(&b, fset, v.Recv.List[0].Type)
						name = "(" + b.String() + ")." + name
					}
					fnStack = append(fnStack, name)
					for _, s := range v.Body.List {
						walk(s)
					}
					prepend(v.Body, mk("func", v.Pos()))
					fnStack = fnStack[:len(fnStack)-1]
					return false
				case *ast.FuncLit:
					outer := "-"
					if len(fnStack) > 0 {
						outer = fnStack[len(fnStack)-1]
					}
					fnStack = append(fnStack, outer+".func")
					for _, s := range v.Body.List {
						walk(s)
					}
					prepend(v.Body, mk("lit", v.Pos()))
					fnStack = fnStack[:len(fnStack)-1]
					return false
				case *ast.ForStmt:
					if v.Init != nil {
						walk(v.Init)
					}
					if v.Cond != nil {
						walk(v.Cond)
					}
					if v.Post != nil {
						walk(v.Post)
					}
					for _, s := range v.Body.List {
						walk(s)
					}
					prepend(v.Body, mk("for", v.Pos()))
					return false
				case *ast.RangeStmt:
					walk(v.X)
					for _, s := range v.Body.List {
						walk(s)
					}
					prepend(v.Body, mk("range", v.Pos()))
					return false
				}
				return true
			})
		}
		for _, d := range f.Decls {
			walk(d)
		}
		// the clock seam: the library must not read the wall clock on its own
		usesTime := false
		for _, im := range f.Imports {
			if im.Path.Value == `"time"` && im.Name == nil {
				usesTime = true
			}
		}
		if usesTime {
			ast.Inspect(f, func(n ast.Node) bool {
				if ce, ok := n.(*ast.CallExpr); ok {
					if se, ok := ce.Fun.(*ast.SelectorExpr); ok {
						if id, ok := se.X.(*ast.Ident); ok && id.Name == "time" && se.Sel.Name == "Now" && len(ce.Args) == 0 {
							se.X = ast.NewIdent("zzsimhook")
							next0 := next
							_ = next0
							timeRewrites++
						}
					}
				}
				return true
			})
			// keep the import used
			f.Decls = append(f.Decls, &ast.GenDecl{Tok: token.VAR, Specs: []ast.Spec{&ast.ValueSpec{
				Names: []*ast.Ident{ast.NewIdent("_")}, Type: &ast.SelectorExpr{X: ast.NewIdent("time"), Sel: ast.NewIdent("Duration")}}}})
		}
		if dense {
			hookCall := func(name string) ast.Stmt {
				return &ast.ExprStmt{X: &ast.CallExpr{Fun: &ast.SelectorExpr{X: ast.NewIdent("zzsimhook"), Sel: ast.NewIdent(name)}}}
			}
			isYield := func(st ast.Stmt) bool {
				es, ok := st.(*ast.ExprStmt)
				if !ok {
					return false
				}
				ce, ok := es.X.(*ast.CallExpr)
				if !ok {
					return false
				}
				se, ok := ce.Fun.(*ast.SelectorExpr)
				if !ok {
					return false
				}
				id, ok := se.X.(*ast.Ident)
				return ok && id.Name == "zzsimhook"
			}
			method := func(st ast.Stmt) (string, int) {
				es, ok := st.(*ast.ExprStmt)
				if !ok {
					return "", 0
				}
				ce, ok := es.X.(*ast.CallExpr)
				if !ok {
					return "", 0
				}
				se, ok := ce.Fun.(*ast.SelectorExpr)
				if !ok {
					return "", 0
				}
				return se.Sel.Name, len(ce.Args)
			}
			generated := map[*ast.BlockStmt]bool{}
			var rewrite func(list []ast.Stmt, pos token.Pos) []ast.Stmt
			rewrite = func(list []ast.Stmt, pos token.Pos) []ast.Stmt {
				var out []ast.Stmt
				for _, st := range list {
					if isYield(st) {
						out = append(out, st)
						continue
					}
					if ds, ok := st.(*ast.DeferStmt); ok {
						if se, ok := ds.Call.Fun.(*ast.SelectorExpr); ok && (se.Sel.Name == "Unlock" || se.Sel.Name == "RUnlock") && len(ds.Call.Args) == 0 {
							// defer mu.Unlock()  ->  defer func() { zzsimhook.Unlocked(); mu.Unlock() }()
							body := &ast.BlockStmt{List: []ast.Stmt{hookCall("Unlocked"), &ast.ExprStmt{X: ds.Call}}}
							generated[body] = true // do not instrument the wrapper itself
							ds.Call = &ast.CallExpr{Fun: &ast.FuncLit{Type: &ast.FuncType{Params: &ast.FieldList{}}, Body: body}}
						}
					}
					name, nargs := method(st)
					out = append(out, mk("stmt", st.Pos()))
					switch {
					case (name == "Lock" || name == "RLock") && nargs == 0:
						out = append(out, st, hookCall("Locked"))
					case (name == "Unlock" || name == "RUnlock") && nargs == 0:
						out = append(out, hookCall("Unlocked"), st, mk("unlock", st.Pos()))
					case name == "Do" && nargs == 1: // sync.Once: the callback runs under the Once's own mutex
						out = append(out, hookCall("Locked"), st, hookCall("Unlocked"))
					default:
						out = append(out, st)
					}
				}
				return out
			}
			skip := map[*ast.BlockStmt]bool{} // bodies that hold case clauses, not statements
			ast.Inspect(f, func(n ast.Node) bool {
				switch v := n.(type) {
				case *ast.SwitchStmt:
					skip[v.Body] = true
				case *ast.TypeSwitchStmt:
					skip[v.Body] = true
				case *ast.SelectStmt:
					skip[v.Body] = true
				}
				return true
			})
			ast.Inspect(f, func(n ast.Node) bool {
				switch v := n.(type) {
				case *ast.BlockStmt:
					if skip[v] || generated[v] {
						return true
					}
					v.List = rewrite(v.List, v.Pos())
				case *ast.CaseClause:
					v.Body = rewrite(v.Body, v.Pos())
				case *ast.CommClause:
					v.Body = rewrite(v.Body, v.Pos())
				}
				return true
			})
		}
		if next == before && !usesTime {
			continue
		}
		// free-floating comments inside bodies confuse the printer once
		// position-less statements are inserted next to them: keep only the file
		// header (build constraints) and the doc comments hanging on declarations
		var keep []*ast.CommentGroup
		for _, cg := range f.Comments {
			if cg.End() < f.Package {
				keep = append(keep, cg)
			}
		}
		f.Comments = keep
		// add the import
		imp := &ast.ImportSpec{Path: &ast.BasicLit{Kind: token.STRING, Value: strconv.Quote(hookImport)}}
		gd := &ast.GenDecl{Tok: token.IMPORT, Specs: []ast.Spec{imp}}
		f.Decls = append([]ast.Decl{gd}, f.Decls...)
		f.Imports = append(f.Imports, imp)
		var out bytes.Buffer
		if err := format.Node(&out, fset, f); err != nil {
			fmt.Fprintln(os.Stderr, "instrument: format:", path, err)
			os.Exit(2)
		}
		if err := os.WriteFile(path, out.Bytes(), 0o644); err != nil {
			fmt.Fprintln(os.Stderr, "instrument:", err)
			os.Exit(2)
		}
	}

	hd := filepath.Join(root, "zzsimhook")
	if err := os.MkdirAll(hd, 0o755); err != nil {
		fmt.Fprintln(os.Stderr, "instrument:", err)
		os.Exit(2)
	}
	src := `// Package zzsimhook is generated by /verif/tools/instrument into a scratch
// copy of the repository; it never exists in the repository itself.
package zzsimhook

import "time"

// NowHook is the clock seam: time.Now() calls in the instrumented copy go
// through Now(). Without a hook the clock stands still at a fixed instant.
var NowHook func() time.Time

func Now() time.Time {
	if h := NowHook; h != nil {
		return h()
	}
	return time.Unix(1700000000, 0)
}

// Hook is installed by the simulator. nil (the default) disables every yield.
var Hook func(site int)

// NumSites is the number of yield sites inserted.
const NumSites = ` + strconv.Itoa(next) + `

// Instrumented reports whether this copy carries yield points.
const Instrumented = ` + strconv.FormatBool(!stub) + `

func Yield(site int) {
	if h := Hook; h != nil {
		h(site)
	}
}

// LockHook is told when the running code has taken (+1) or is about to
// release (-1) a mutex, so that the scheduler never parks a task that holds
// one (dense instrumentation only).
var LockHook func(delta int)

func Locked() {
	if h := LockHook; h != nil {
		h(1)
	}
}

func Unlocked() {
	if h := LockHook; h != nil {
		h(-1)
	}
}

// Dense reports statement-level yield points.
const Dense = ` + strconv.FormatBool(dense) + `
`
	if err := os.WriteFile(filepath.Join(hd, "zzsimhook.go"), []byte(src), 0o644); err != nil {
		fmt.Fprintln(os.Stderr, "instrument:", err)
		os.Exit(2)
	}
	var tsv bytes.Buffer
	for _, s := range sites {
		fmt.Fprintf(&tsv, "%d\t%s\t%s\t%s\n", s.id, s.kind, s.pos, s.fn)
	}
	if err := os.WriteFile(filepath.Join(hd, "sites.tsv"), tsv.Bytes(), 0o644); err != nil {
		fmt.Fprintln(os.Stderr, "instrument:", err)
		os.Exit(2)
	}
	fmt.Printf("instrument: %d sites in %d files, %d time.Now() calls redirected (module %s)\n", next, len(files), timeRewrites, mod)
}
