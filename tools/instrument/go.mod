module qinstrument

go 1.22
